//go:build verif

package snaps

import (
	"encoding/json"
	"fmt"
	"github.com/gkampitakis/go-snaps/match"
	"os"
	"os/exec"
	"path/filepath"
	"strings"

	"github.com/goccy/go-yaml"
)

// C18 — YAML snapshots keep the document verbatim (DESIGN §6 C18).

type c18Case struct {
	Kind  string `json:"kind"` // text | govalue
	Text  string `json:"text,omitempty"`
	Bytes bool   `json:"bytes,omitempty"`
	Value string `json:"value,omitempty"`
}

var c18Lines = []string{"a: 1", "b: x", "# c", "---", "...", "- x", "k: |", "  ---", "  t", "[TestA - 2]", "/-/-/-/", "", "[TestQ - 7]", "x: $1 %d", "--- "}

type c18Nested struct {
	Name  string            `yaml:"name"`
	Age   int               `yaml:"age"`
	Tags  []string          `yaml:"tags"`
	Inner map[string]any    `yaml:"inner"`
	Ptr   *c18Nested        `yaml:"ptr,omitempty"`
	M     map[string]string `yaml:"m"`
}

type c18Leaf struct {
	V int `yaml:"v"`
}

// c18SharedLeaf is one pointer that several values of the process hold
var c18SharedLeaf = &c18Leaf{V: 7}

type c18Anchored struct {
	Base *c18Leaf `yaml:"base,anchor=base"`
	Copy *c18Leaf `yaml:"copy,alias"`
}

type c18Plain struct {
	Leaf  *c18Leaf         `yaml:"leaf"`
	Items []string         `yaml:"items"`
	Tags  map[string][]int `yaml:"tags"`
}

// c18Disturb makes one unrelated MatchYAML call (its outcome does not matter): what OTHER tests of the same
// process snapshot must not influence the text a Go value is marshalled to.
func c18Disturb(dir, kind string) {
	os.RemoveAll(dir)
	os.MkdirAll(dir, 0o755)
	t := &vfT{name: "TestOther"}
	cfg := WithConfig(Dir(dir), Filename("other"))
	switch kind {
	case "unmarshalable-in-slice":
		cfg.MatchYAML(t, struct {
			H []any `yaml:"h"`
		}{[]any{"ok", make(chan int)}})
	case "unmarshalable-in-map":
		cfg.MatchYAML(t, map[string]any{"a": map[string]any{"b": []any{[]any{func() {}}}}})
	case "anchored-shared-pointer":
		cfg.MatchYAML(t, c18Anchored{Base: c18SharedLeaf, Copy: c18SharedLeaf})
	case "yaml-matchers":
		cfg.MatchYAML(t, "k: [1, 2]\nm:\n  n: x\nb: !!binary aGk=\n", match.Any("$.k[0]"), match.Custom("$.m.n", func(any) (any, error) { return []byte("raw"), nil }), match.Type[string]("$.m.n"))
	case "json-matchers":
		cfg.MatchJSON(t, map[string]any{"d": []byte("abc")}, match.Any("d"))
	case "invalid-text":
		cfg.MatchYAML(t, "a: [\n")
	case "text-document":
		cfg.MatchYAML(t, "- a\n- b:\n    - c\n")
	case "deep-slices":
		cfg.MatchYAML(t, [][][]int{{{1, 2}, {3}}, {{4}}})
	}
	t.end()
}

var c18Disturbances = []string{"unmarshalable-in-slice", "unmarshalable-in-map", "anchored-shared-pointer", "invalid-text", "text-document", "deep-slices", "yaml-matchers", "json-matchers"}

func c18GoValue(name string) any {
	switch name {
	case "bytes":
		return struct {
			Digest []byte            `yaml:"digest"`
			M      map[string][]byte `yaml:"m"`
			L      [][]byte          `yaml:"l"`
			A      [3]byte           `yaml:"a"`
		}{[]byte("abc"), map[string][]byte{"k": []byte("---"), "e": {}}, [][]byte{[]byte("x"), nil}, [3]byte{1, 2, 3}}
	case "tiekeys":
		// map keys that are equal under natural ordering (leading zeros) or differ only in case / digits: the order must not depend on map iteration
		return map[string]any{"disk01_size": 1, "disk1_size": 2, "v01-beta": "a", "v1-beta": "b", "eth0_mtu": 3, "eth00_mtu": 4, "K": 5, "k": 6, "item10": 7, "item9": 8,
			"nested": map[string]any{"a01": 1, "a1": 2, "a001": 3}, "list": []any{map[string]any{"x007": 1, "x7": 2}}}
	case "sharedptr":
		return c18Plain{Leaf: c18SharedLeaf, Items: []string{"a", "b"}, Tags: map[string][]int{"x": {1, 2}, "y": {3}}}
	case "map8":
		return map[string]any{"h": 1, "g": "two", "f": 3.5, "e": true, "d": nil, "c": []int{1, 2}, "b": map[string]int{"z": 1, "y": 2, "x": 3}, "a": "---"}
	case "struct":
		return c18Nested{Name: "n", Age: 3, Tags: []string{"t1", "---", "[TestA - 2]"}, Inner: map[string]any{"k2": 2, "k1": map[string]any{"q": 1, "p": 2}}, Ptr: &c18Nested{Name: "inner"}, M: map[string]string{"b": "2", "a": "1", "c": "3"}}
	case "slice":
		return []map[string]any{{"b": 1, "a": 2}, {"d": "x\ny", "c": []string{"1"}}, {}}
	}
	return nil
}

func c18Gen(c *vfCtx, emit func(c18Case)) {
	maxLines := 4
	if c.thorough() {
		maxLines = 5
	}
	c.bound("line_alphabet", vfQ(c18Lines))
	c.bound("max_lines", maxLines)
	seen := map[string]bool{}
	var rec func(acc []string)
	rec = func(acc []string) {
		if len(acc) > 0 {
			base := strings.Join(acc, "\n")
			for _, end := range []string{"", "\n", "\n\n", "\n\n\n"} {
				t := base + end
				if seen[t] {
					continue
				}
				seen[t] = true
				emit(c18Case{Kind: "text", Text: t})
				if len(acc) <= 2 || end == "\n" {
					emit(c18Case{Kind: "text", Text: t, Bytes: true})
				}
			}
		}
		if len(acc) == maxLines {
			return
		}
		for _, l := range c18Lines {
			if !c.thorough() && len(acc) >= 2 && (l == "b: x" || l == "[TestQ - 7]" || l == "x: $1 %d") {
				continue
			}
			rec(append(append([]string{}, acc...), l))
		}
	}
	rec(nil)
	for _, b := range vfBigValues() {
		doc := "k: |\n  " + strings.ReplaceAll(b, "\n", "\n  ") + "\nz: 1\n"
		emit(c18Case{Kind: "text", Text: doc})
		emit(c18Case{Kind: "text", Text: "# big\n---\n" + doc, Bytes: true})
	}
	for _, v := range []string{"map8", "struct", "slice", "sharedptr", "bytes", "tiekeys"} {
		emit(c18Case{Kind: "govalue", Value: v})
	}
}

func c18Run(c *vfCtx, cs c18Case) {
	if cs.Kind == "govalue" {
		c18GoValues(c, cs)
		return
	}
	var probe any
	valid := yaml.Unmarshal([]byte(cs.Text), &probe) == nil
	dir := c.newWorld()
	vfResetState(false, "", true)
	cfg := WithConfig(Dir(dir), Filename("f"))
	var in any = cs.Text
	if cs.Bytes {
		in = []byte(cs.Text)
	}
	t := &vfT{name: "TestA"}
	mk := t.mark()
	ops := vfLogged(func() { cfg.MatchYAML(t, in) })
	c.count("transitions", 1)
	got := t.outcome(mk)
	if !valid {
		c.outcome("invalid:" + got)
		c.count("invalid_texts", 1)
		if got != "failed" || len(vfMutOps(ops)) > 0 || len(vfSnapDir(dir)) > 0 {
			c.violation("", fmt.Sprintf("invalid YAML %q: signalled %s, mutating operations %s", vfClip(cs.Text), got, vfShowOps(vfMutOps(ops))), cs)
			t.end()
			return
		}
		// the rejected call was the test's first call: the next one addresses slot 2
		mkv := t.mark()
		cfg.MatchYAML(t, "ok: 1\n")
		t.end()
		es, perr := vfParse(vfSnapDir(dir)["f.snap"].Data)
		if o := t.outcome(mkv); o != "added" || perr != nil || len(es) != 1 || es[0].ID != "TestA - 2" {
			c.violation("", fmt.Sprintf("after the rejected call with %q the next call signalled %s and the file holds %s (%v): it must be stored as [TestA - 2]", vfClip(cs.Text), o, vfShowEntries(es), perr), cs)
		}
		return
	}
	c.addSet("nontrivial", vfHashJSON(cs))
	class := ""
	if vfHasLine(cs.Text, "[TestA - 2]") || vfHasLine(cs.Text, "[TestA - 1]") {
		class = "K2-header-line-in-body"
	}
	k1 := vfHasLine(cs.Text, "/-/-/-/")
	if got != "added" {
		c.violation(class, fmt.Sprintf("recording %q signalled %s %v", vfClip(cs.Text), got, t.errs), cs)
		return
	}
	// a second call so that slot 2 of the test is addressed as well
	mk2 := t.mark()
	cfg.MatchYAML(t, "second: 1\n")
	if o := t.outcome(mk2); o != "added" {
		c.violation(class, fmt.Sprintf("after recording %q the second call signalled %s %v", vfClip(cs.Text), o, t.errs), cs)
		return
	}
	t.end()
	data := vfSnapDir(dir)["f.snap"].Data
	c.addSet("states", vfHash(string(data)))
	es, err := vfParse(data)
	if err != nil || len(es) != 2 {
		c.violation(class, fmt.Sprintf("after recording %q the file is not two well-formed entries: %v %q", vfClip(cs.Text), err, vfClip(string(data))), cs)
		return
	}
	if stored := vfUnescapeModel(es[0].Body); stored != cs.Text {
		prev := class
		if k1 {
			// K1 only explains THIS check: the stored text cannot be mapped back; replaying must still work
			class = "K1-escape-not-injective"
		}
		c.violation(class, fmt.Sprintf("stored document %q differs from the input %q", vfClip(stored), vfClip(cs.Text)), cs)
		if class != "K1-escape-not-injective" {
			return
		}
		class = prev
	}
	// replay
	vfResetState(false, "", true)
	vfPlantSentinel(dir)
	before := vfSnapDir(dir)
	t2 := &vfT{name: "TestA"}
	ops2 := vfLogged(func() {
		cfg.MatchYAML(t2, in)
		cfg.MatchYAML(t2, "second: 1\n")
	})
	t2.end()
	c.count("transitions", 2)
	c.outcome("replay:" + t2.outcome(vfMark{}))
	if len(t2.errs)+len(t2.logs) > 0 || len(vfMutOps(ops2)) > 0 || vfDirDiff(before, vfSnapDir(dir), true) != "" {
		c.violation(class, fmt.Sprintf("replay of %q: errors %v logs %v writes %s", vfClip(cs.Text), t2.errs, t2.logs, vfShowOps(vfMutOps(ops2))), cs)
		return
	}
	// the same two entries stored in the other order, then Clean with sorting (a rewrite of the file by the library's other
	// reader/writer): the document is still stored exactly as given and replays
	if es2, err := vfParse(vfSnapDir(dir)["f.snap"].Data); err == nil && len(es2) == 2 {
		os.WriteFile(filepath.Join(dir, "f.snap"), vfRender([]vfEntry{es2[1], es2[0]}), 0o644)
		vfClean("", 1, true)
		c.count("transitions", 1)
		es3, err := vfParse(vfSnapDir(dir)["f.snap"].Data)
		if err != nil || len(es3) != 2 || es3[0].ID != "TestA - 1" || es3[0].Body != es2[0].Body || es3[1].Body != es2[1].Body {
			c.violation(class, fmt.Sprintf("after Clean re-sorted the file the document %q is stored as %s (%v)", vfClip(cs.Text), vfShowEntries(es3), err), cs)
			return
		}
		vfResetState(false, "", true)
		t3 := &vfT{name: "TestA"}
		cfg.MatchYAML(t3, in)
		cfg.MatchYAML(t3, "second: 1\n")
		t3.end()
		if len(t3.errs)+len(t3.logs) > 0 {
			c.violation(class, fmt.Sprintf("replay of %q after Clean re-sorted the file: errors %v logs %v", vfClip(cs.Text), t3.errs, t3.logs), cs)
			return
		}
		// slot 1 (not the last entry of the file) is updated to a longer document and then back to this one: both rewrites
		// leave the other entry alone, and the document is again stored exactly as given
		grown := "grown:\n  - one more line than before\n  - and another one\nkey: value that is longer than the document it replaces\npad:\n" + strings.Repeat("  - x\n", 3)
		ucfg := WithConfig(Dir(dir), Filename("f"), Update(true))
		for i, doc := range []any{grown, in} {
			vfResetState(false, "", true)
			t4 := &vfT{name: "TestA"}
			ucfg.MatchYAML(t4, doc)
			cfg.MatchYAML(t4, "second: 1\n")
			t4.end()
			c.count("transitions", 2)
			es4, err := vfParse(vfSnapDir(dir)["f.snap"].Data)
			wantBody := es2[0].Body
			if i == 0 {
				wantBody = strings.TrimSuffix(grown, "\n") + "\n"
			}
			if len(t4.errs) > 0 || err != nil || len(es4) != 2 || es4[1].Body != es2[1].Body || es4[1].ID != "TestA - 2" || es4[0].ID != "TestA - 1" || (i == 1 && es4[0].Body != wantBody) {
				c.violation(class, fmt.Sprintf("update %d of slot 1 (first to a longer document, then back to %q): errors %v, file holds %s (%v); the second entry must stay %q", i+1, vfClip(cs.Text), t4.errs, vfShowEntries(es4), err, vfClip(es2[1].Body)), cs)
				return
			}
		}
	}
}

// c18StoredText records a Go value and returns the stored document.
func c18StoredText(dir, value string) (string, error) {
	os.RemoveAll(dir)
	os.MkdirAll(dir, 0o755)
	vfResetState(false, "", true)
	t := &vfT{name: "TestA"}
	WithConfig(Dir(dir), Filename("g")).MatchYAML(t, c18GoValue(value))
	t.end()
	if len(t.errs) > 0 {
		return "", fmt.Errorf("%v", t.errs)
	}
	es, err := vfParse(vfSnapDir(dir)["g.snap"].Data)
	if err != nil || len(es) != 1 {
		return "", fmt.Errorf("malformed file: %v", err)
	}
	return es[0].Body, nil
}

func c18GoValues(c *vfCtx, cs c18Case) {
	dir := filepath.Join(c.scratch, "gv")
	first, err := c18StoredText(dir, cs.Value)
	if err != nil {
		c.violation("", fmt.Sprintf("Go value %s could not be recorded: %v", cs.Value, err), cs)
		return
	}
	c.addSet("nontrivial", vfHashJSON(cs))
	c.addSet("states", vfHash(first))
	for i := 0; i < 20; i++ {
		s, err := c18StoredText(dir, cs.Value)
		c.count("transitions", 1)
		if err != nil || s != first {
			c.violation("", fmt.Sprintf("Go value %s marshalled to a different text on attempt %d: %q vs %q (%v)", cs.Value, i+2, vfClip(s), vfClip(first), err), cs)
			return
		}
	}
	// histories: every unrelated call (failing ones included) between two marshallings of the value, singly and in pairs
	for _, d1 := range c18Disturbances {
		for _, d2 := range append([]string{""}, c18Disturbances...) {
			c18Disturb(filepath.Join(c.scratch, "gvo"), d1)
			if d2 != "" {
				c18Disturb(filepath.Join(c.scratch, "gvo"), d2)
			}
			s, err := c18StoredText(dir, cs.Value)
			c.count("transitions", 3)
			if err != nil || s != first {
				c.violation("", fmt.Sprintf("Go value %s marshalled to a different text after unrelated MatchYAML call(s) %s %s in the same process: %q vs %q (%v)", cs.Value, d1, d2, vfClip(s), vfClip(first), err), cs)
				return
			}
		}
	}
	// replay passes
	vfResetState(false, "", true)
	t := &vfT{name: "TestA"}
	WithConfig(Dir(dir), Filename("g")).MatchYAML(t, c18GoValue(cs.Value))
	t.end()
	if len(t.errs)+len(t.logs) > 0 {
		c.violation("", fmt.Sprintf("replay of Go value %s: %v %v", cs.Value, t.errs, t.logs), cs)
		return
	}
	// three fresh processes (map iteration seeds differ per process)
	bin := os.Getenv("VERIF_BIN")
	if bin == "" {
		bin = os.Args[0]
	}
	for p := 0; p < 3; p++ {
		out := filepath.Join(c.scratch, fmt.Sprintf("child%d.json", p))
		cmd := exec.Command(bin, "-test.run", "^TestVerifDriver$", "-test.count", "1", "-test.timeout", "60s")
		cmd.Env = append(os.Environ(), "VERIF_PROP=C18", "VERIF_MODE=c18child", "VERIF_CHILD_VALUE="+cs.Value, "VERIF_OUT="+out, "VERIF_SCRATCH="+filepath.Join(c.scratch, fmt.Sprintf("childw%d", p)), "VERIF_REPLAY=")
		os.MkdirAll(filepath.Join(c.scratch, fmt.Sprintf("childw%d", p)), 0o755)
		if b, err := cmd.CombinedOutput(); err != nil {
			c.harnessErr("C18 child process failed: %v %s", err, vfClip(string(b)))
			return
		}
		b, _ := os.ReadFile(out)
		var r struct {
			Extra map[string]any `json:"extra"`
		}
		json.Unmarshal(b, &r)
		c.count("transitions", 1)
		if s, _ := r.Extra["c18_text"].(string); s != first {
			c.violation("", fmt.Sprintf("Go value %s marshalled to a different text in a fresh process: %q vs %q", cs.Value, vfClip(s), vfClip(first)), cs)
			return
		}
	}
	c.outcome("govalue:stable")
}

func init() {
	vfDrivers["C18"] = &vfDriver{race: func(c *vfCtx) { vfRaceGoValues(c, []string{"yaml", "yaml-text", "json"}) }}
	vfRegister("C18", func(c *vfCtx, emit func(c18Case)) {
		if c.mode == "c18child" {
			s, err := c18StoredText(filepath.Join(c.scratch, "gv"), os.Getenv("VERIF_CHILD_VALUE"))
			if err != nil {
				c.harnessErr("child: %v", err)
			}
			c.extra["c18_text"] = s
			return
		}
		c.rule = "every text of <=3 (quick) / <=4 (thorough) lines over a 14-line YAML alphabet (separators, document end, comments, block scalar with an indented ---, flow sequences that look like entry headers, the escape token, blank lines) x 4 endings x {string, []byte}; " +
			"validity decided by the YAML library go-snaps uses; Go values (one sharing a pointer with an anchor-tagged value) marshalled 21x in one process, after every single/pair of 8 unrelated calls (failing ones included), and in 3 fresh processes"
		c.assume("validity oracle is goccy/go-yaml itself (gopkg.in/yaml.v3 is not in go-snaps' module graph and cannot be imported by injected code)")
		c18Gen(c, emit)
	}, c18Run)
}
