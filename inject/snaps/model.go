//go:build verif

package snaps

import (
	"fmt"
	"sort"
	"strings"
)

// Reference model M (DESIGN §3.3): deliberately boring. A snapshot directory
// is a map from file name to an ordered list of entries (multi-entry files) or
// to raw content (standalone files). Look-up is structural, never by line
// search. The model never reads go-snaps code; its constants are the
// documented file format.

type vfMEntry struct {
	ID   string
	Val  string // the formatted value the entry was recorded from
	Body string // stored body = escape(Val)
}

type vfModel struct {
	ci        bool
	updateVar string
	files     map[string][]vfMEntry
	sfiles    map[string]string
	next      map[string]int          // file \x00 test -> ordinal of the last call in this execution
	snext     map[string]int          // standalone generic name -> ordinal
	addressed map[string]map[int]bool // file \x00 test -> ordinals addressed in this process
	saddr     map[string]map[int]bool
	counts    map[string]int // passed / failed / added / updated
	skips     int
	sused     map[string]map[string]bool // test -> standalone generic names it used in this execution
}

func vfNewModel(ci bool, updateVar string) *vfModel {
	return &vfModel{ci: ci, updateVar: updateVar, files: map[string][]vfMEntry{}, sfiles: map[string]string{},
		next: map[string]int{}, snext: map[string]int{}, addressed: map[string]map[int]bool{}, saddr: map[string]map[int]bool{},
		counts: map[string]int{}, sused: map[string]map[string]bool{}}
}

func (m *vfModel) canCreate(upd string) bool {
	if m.ci {
		return false
	}
	if upd != "" {
		return upd == "true"
	}
	return true
}

func (m *vfModel) canUpdate(upd string) bool {
	if m.ci {
		return false
	}
	if upd != "" {
		return upd == "true"
	}
	return m.updateVar == "true"
}

// preload puts an entry into a multi-entry file of the model (pre-existing content).
func (m *vfModel) preload(file, id, val string) {
	m.files[file] = append(m.files[file], vfMEntry{ID: id, Val: val, Body: vfEscape(val)})
}

func (m *vfModel) render(file string) []byte {
	var es []vfEntry
	for _, e := range m.files[file] {
		es = append(es, vfEntry{ID: e.ID, Body: e.Body})
	}
	return vfRender(es)
}

func (m *vfModel) entries(file string) []vfEntry {
	es := []vfEntry{}
	for _, e := range m.files[file] {
		es = append(es, vfEntry{ID: e.ID, Body: e.Body})
	}
	return es
}

func (m *vfModel) find(file, id string) int {
	for i, e := range m.files[file] {
		if e.ID == id {
			return i
		}
	}
	return -1
}

func vfStandaloneGeneric(test string, cl vfCall) string {
	n := cl.File
	if n == "" {
		n = strings.ReplaceAll(test, "/", "_")
	}
	ext := ""
	if cl.API == "sjson" {
		ext = ".json"
	}
	return n + "_%d.snap" + ext
}

// vfStandaloneName fills the occurrence number into a generic standalone name: the LAST `%d` is the number's place
// (a test name may contain the two characters itself).
func vfStandaloneName(generic string, k int) string {
	i := strings.LastIndex(generic, "%d")
	if i < 0 {
		return generic
	}
	return generic[:i] + fmt.Sprint(k) + generic[i+2:]
}

// call steps the model by one Match* call whose formatted value is val.
// It returns the outcome (pass | added | updated | failed), the slot state it
// found (missing | equal | different) and the id / file name addressed.
func (m *vfModel) call(test string, cl vfCall, val string) (outcome, slot, id string) {
	if cl.standalone() {
		g := vfStandaloneGeneric(test, cl)
		m.use(test, g)
		m.snext[g]++
		k := m.snext[g]
		if m.saddr[g] == nil {
			m.saddr[g] = map[int]bool{}
		}
		m.saddr[g][k] = true
		name := vfStandaloneName(g, k)
		prev, ok := m.sfiles[name]
		switch {
		case !ok:
			slot = "missing"
			if m.canCreate(cl.Upd) {
				m.sfiles[name] = val
				outcome = "added"
			} else {
				outcome = "failed"
			}
		case prev == val:
			slot, outcome = "equal", "pass"
		default:
			slot = "different"
			if m.canUpdate(cl.Upd) {
				m.sfiles[name] = val
				outcome = "updated"
			} else {
				outcome = "failed"
			}
		}
		m.bump(outcome)
		return outcome, slot, name
	}
	file := cl.fileName()
	key := file + "\x00" + test
	m.next[key]++
	k := m.next[key]
	if m.addressed[key] == nil {
		m.addressed[key] = map[int]bool{}
	}
	m.addressed[key][k] = true
	id = fmt.Sprintf("%s - %d", test, k)
	i := m.find(file, id)
	switch {
	case i < 0:
		slot = "missing"
		if m.canCreate(cl.Upd) {
			m.files[file] = append(m.files[file], vfMEntry{ID: id, Val: val, Body: vfEscape(val)})
			outcome = "added"
		} else {
			outcome = "failed"
		}
	case m.files[file][i].Val == val:
		slot, outcome = "equal", "pass"
	default:
		slot = "different"
		if m.canUpdate(cl.Upd) {
			m.files[file][i].Val = val
			m.files[file][i].Body = vfEscape(val)
			outcome = "updated"
		} else {
			outcome = "failed"
		}
	}
	m.bump(outcome)
	return outcome, slot, id
}

// fail steps the model for a call that fails before it reaches the file
// (invalid input, matcher error): the ordinal is consumed, nothing else.
func (m *vfModel) fail(test string, cl vfCall) {
	if cl.standalone() {
		g := vfStandaloneGeneric(test, cl)
		m.use(test, g)
		m.snext[g]++
		if m.saddr[g] == nil {
			m.saddr[g] = map[int]bool{}
		}
		m.saddr[g][m.snext[g]] = true
	} else {
		key := cl.fileName() + "\x00" + test
		m.next[key]++
		if m.addressed[key] == nil {
			m.addressed[key] = map[int]bool{}
		}
		m.addressed[key][m.next[key]] = true
	}
	m.bump("failed")
}

func (m *vfModel) use(test, g string) {
	if m.sused[test] == nil {
		m.sused[test] = map[string]bool{}
	}
	m.sused[test][g] = true
}

func (m *vfModel) bump(outcome string) {
	switch outcome {
	case "pass":
		m.counts["passed"]++
	default:
		m.counts[outcome]++
	}
}

// endTest is the end of one execution of a test: running ordinals restart.
func (m *vfModel) endTest(test string) {
	for k := range m.next {
		if strings.HasSuffix(k, "\x00"+test) {
			m.next[k] = 0
		}
	}
	for g := range m.sused[test] {
		m.snext[g] = 0
	}
	delete(m.sused, test)
}

func (m *vfModel) fileNames() []string {
	var out []string
	for f := range m.files {
		out = append(out, f)
	}
	for f := range m.sfiles {
		out = append(out, f)
	}
	sort.Strings(out)
	return out
}

// vfShadow is the predicate of known finding K2: some body line of some entry
// in one of the files equals the header "[id]" of a slot in ids.
func vfShadow(bodies []string, ids []string) bool {
	for _, b := range bodies {
		for _, id := range ids {
			if vfHasLine(b, "["+id+"]") {
				return true
			}
		}
	}
	return false
}
