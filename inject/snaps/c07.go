//go:build verif

package snaps

import (
	"fmt"
	"os"
	"path/filepath"
	"strings"
)

// C07 — Clean never discards a snapshot that was matched in this run
// (DESIGN §6 C07). Programs over the test-name alphabet, two multi-entry files,
// standalone calls, failing calls (the ordinal is still consumed), -count 1..3,
// pre-existing directory = addressed entries + stale ones, every Clean mode.

type c07Case struct {
	Sc vfCleanScenario `json:"sc"`
}

func c07Gen(c *vfCtx, emit func(c07Case)) {
	env := os.Getenv("UPDATE_SNAPS")
	c.bound("update_snaps_of_this_process", env)
	// test shapes: list of calls (api, file, kind) where kind: ok | mismatch | invalid
	type shape struct {
		name  string
		calls []vfCall
	}
	ok := func(api, file, v string) vfCall { return vfCall{API: api, Val: v, File: file} }
	bad := func(api, file, v string) vfCall { return vfCall{API: api, Val: v, File: file, Upd: "false"} } // value differs from the stored one
	shapesFor := func(name string) []shape {
		return []shape{
			{name, []vfCall{ok("snap", "", "v1")}},
			{name, []vfCall{ok("snap", "", "v1"), ok("snap", "", "v2"), ok("snap", "", "v3")}},
			{name, []vfCall{ok("snap", "", "v1"), bad("snap", "", "CHANGED"), ok("snap", "", "v3")}},
			{name, []vfCall{ok("snap", "", "v1"), ok("snap", "g", "w1"), ok("snap", "", "v2"), ok("snap", "g", "w2")}},
			{name, []vfCall{ok("snap", "", "v1"), ok("ssnap", "", "s1"), ok("ssnap", "", "s2")}},
			{name, []vfCall{{API: "json", Val: `{"a":`}, ok("json", "", `{"a":1}`), ok("sjson", "", `[1]`)}}, // first call: invalid JSON, consumes slot 1
			{name, []vfCall{ok("ssnap", "", "s1"), bad("ssnap", "", "CHANGED")}},
			// matched values containing header-looking lines that shadow no addressed slot
			{name, []vfCall{ok("snap", "", "ids:\n[TestQ - 7]\nend"), ok("snap", "", "[TestQ/sub - 12]"), ok("yaml", "", "- [TestQ - 7]\n")}},
			// values with format verbs, near-terminators and one larger than any line buffer
			{name, []vfCall{ok("snap", "", "100% done %d %s"), ok("snap", "", "x\n--- \ny\n---\t"), ok("snap", "", c10Big)}},
			// lines ending in CR LF (whether such a value replays is the documented limitation; Clean must not CHANGE whether it does) and one very long line
			{name, []vfCall{ok("snap", "", "GET / HTTP/1.1\r\nHost: x\r\n\r\nbody"), ok("snap", "", "v2"), ok("snap", "", c10Long)}},
			// the empty value, a value that is one empty line, and a blank: matched entries like any other
			{name, []vfCall{ok("snap", "", ""), ok("snap", "", "\n"), ok("snap", "", " "), ok("ssnap", "", "")}},
		}
	}
	names := []string{"TestA", "TestA/s", "TestAB", "FuzzA/seed#0", "Test1", "TestA/c_01", "TestA/c_1", "TestA/a:b?*"}
	if c.thorough() {
		names = append(names, "TestB", "TestA/s#01", "BenchmarkX", "TestA/c_001", "TestA/<a>|b", "TestA/[x]", "TestA/x.snap", "TestA/_%d", "TestÜ/ä")
	}
	counts := []int{1, 2, 3}
	for ni, n1 := range names {
		for si, s1 := range shapesFor(n1) {
			for nj, n2 := range names {
				if n2 == n1 {
					continue
				}
				s2s := shapesFor(n2)
				for sj, s2 := range s2s {
					if !c.thorough() && (si+sj+ni+nj)%3 != 0 {
						continue
					}
					for _, cnt := range counts {
						for _, srt := range []bool{false, true} {
							for _, ci := range []bool{false, true} {
								if ci && (cnt > 1 || !c.thorough() && (si+sj)%2 == 1) {
									continue
								}
								for _, run := range []string{"", "^(" + strings.Split(n1, "/")[0] + "|" + strings.Split(n2, "/")[0] + ")$"} {
									if run != "" && !c.thorough() && (ni+nj+si)%4 != 0 {
										continue
									}
									sc := c07Scenario(env, cnt, srt, ci, run, []shape2{{s1.name, s1.calls}, {s2.name, s2.calls}}, (si+sj+cnt)%2 == 0)
									sc.DirSpell = []string{"", "slash", "", "dot", "", "dotdot", "", "double"}[(si+sj+ni+cnt)%8]
									emit(c07Case{Sc: sc})
								}
							}
						}
					}
				}
			}
		}
	}
}

type shape2 struct {
	name  string
	calls []vfCall
}

// c07Scenario builds the pre-existing directory so that every ok/bad call
// finds its slot (recorded value), plus stale entries and files around them.
func c07Scenario(env string, cnt int, srt, ci bool, run string, tests []shape2, staleFirst bool) vfCleanScenario {
	sc := vfCleanScenario{Count: cnt, Sort: srt, CI: ci, Run: run, Env: env, SFiles: map[string]string{}, Other: map[string]string{"README.md": "x"}}
	sc.CRLF = (len(tests[0].name)+len(tests[0].calls)+len(tests[len(tests)-1].calls)+cnt)%4 == 3
	files := map[string][]vfEntry{}
	order := []string{}
	addFile := func(n string) {
		if _, ok := files[n]; !ok {
			files[n] = nil
			order = append(order, n)
		}
	}
	for _, t := range tests {
		k := map[string]int{}
		sk := map[string]int{}
		te := vfTestExec{Name: t.name}
		for _, cl := range t.calls {
			te.Calls = append(te.Calls, cl)
			if cl.standalone() {
				g := vfStandaloneGeneric(t.name, cl)
				sk[g]++
				name := vfStandaloneName(g, sk[g])
				val := cl.Val
				if cl.Upd == "false" {
					val = "recorded"
				}
				if cl.API == "sjson" {
					val = "[\n 1\n]"
				}
				sc.SFiles[name] = val
				continue
			}
			fn := cl.fileName()
			addFile(fn)
			k[fn]++
			val := cl.Val
			switch {
			case cl.Upd == "false":
				val = "recorded"
			case cl.API == "json" && cl.Val == `{"a":`:
				val = "{\n \"a\": 0\n}" // slot 1 exists; the call fails before reading it
			case cl.API == "json":
				val = "{\n \"a\": 1\n}"
			}
			files[fn] = append(files[fn], vfEntry{ID: fmt.Sprintf("%s - %d", t.name, k[fn]), Body: val})
		}
		sc.Tests = append(sc.Tests, te)
	}
	for _, fn := range order {
		es := files[fn]
		stale := []vfEntry{{ID: "TestGone - 1", Body: "gone"}, {ID: tests[0].name + " - 9", Body: "beyond"}}
		if staleFirst {
			es = append(append([]vfEntry{stale[0]}, es...), stale[1])
		} else {
			// unsorted: reverse the live entries, stale ones in the middle
			var rev []vfEntry
			for i := len(es) - 1; i >= 0; i-- {
				rev = append(rev, es[i])
			}
			mid := len(rev) / 2
			es = append(append(append([]vfEntry{}, rev[:mid]...), stale...), rev[mid:]...)
		}
		sc.Files = append(sc.Files, vfNamedFile{Name: fn, Entries: es})
	}
	sc.Files = append(sc.Files, vfNamedFile{Name: "unused.snap", Entries: []vfEntry{{ID: "TestU - 1", Body: "u"}}})
	if !staleFirst {
		// an addressed file that is examined before the others and whose last entry lost its terminator (truncated file):
		// nothing of it may end up in what the other files' matched entries replay as
		sc.Files = append(sc.Files, vfNamedFile{Name: "0.snap", Entries: []vfEntry{{ID: "TestKeep0 - 1", Body: "k0"}}})
		sc.Append = map[string]string{"0.snap": "\n[TestTrunc - 1]\nleftover line 1\nleftover line 2\n"}
		sc.Tests = append(sc.Tests, vfTestExec{Name: "TestKeep0", Calls: []vfCall{{API: "snap", Val: "k0", File: "0"}}})
	}
	sc.SFiles["TestGone_1.snap"] = "gone"
	return sc
}

// c07Varying: a test whose number of calls differs between the executions of
// one process (-count > 1): 3 calls first, then 2 (and the reverse).
func c07Varying(env string, emit func(c07Case)) {
	three := []vfCall{{API: "snap", Val: "v1"}, {API: "snap", Val: "v2"}, {API: "snap", Val: "v3"}}
	two := three[:2]
	for _, cnt := range []int{2, 3} {
		for _, rev := range []bool{false, true} {
			for _, srt := range []bool{false, true} {
				a, b := three, two
				if rev {
					a, b = two, three
				}
				sc := c07Scenario(env, cnt, srt, false, "", []shape2{{"TestVar", three}, {"TestB", three[:1]}}, true)
				sc.Tests = []vfTestExec{{Name: "TestVar", Calls: a}, {Name: "TestB", Calls: three[:1]}}
				sc.Tests2 = []vfTestExec{{Name: "TestVar", Calls: b}, {Name: "TestB", Calls: three[:1]}}
				emit(c07Case{Sc: sc})
			}
		}
	}
}

func c07Run(c *vfCtx, cs c07Case) {
	sc := cs.Sc
	if sc.Env != os.Getenv("UPDATE_SNAPS") {
		c.harnessErr("C07: case recorded with UPDATE_SNAPS=%q, process has %q", sc.Env, os.Getenv("UPDATE_SNAPS"))
		return
	}
	o := vfRunClean(c, sc)
	c.count("transitions", int64(len(o.callObs)+1))
	c.addSet("states", vfHash(fmt.Sprint(vfHashDir(o.after)), o.out))
	c.addSet("nontrivial", vfHashJSON(cs))
	class := ""
	for _, t := range sc.Tests {
		if !strings.HasPrefix(t.Name, "Test") {
			class = "K6-non-Test-id-dropped-on-rewrite"
		}
	}
	if sc.Tests2 != nil {
		// K9: the number of calls of a test differs between the executions of this process
		class = "K9-call-count-differs-between-executions"
	}
	// the model and the implementation must agree on what each call did (JSON
	// calls have an opaque format: only pass/fail-before-read is compared)
	for i, co := range o.callObs {
		want := co.Want
		if co.Call.API == "json" || co.Call.API == "sjson" {
			want = "pass"
			if co.Call.Val == `{"a":` {
				want = "failed"
			}
		}
		if strings.Contains(co.Call.Val, "\r") {
			continue // documented limitation: whether a value with CR at the end of a line replays is not modelled; step 3 compares before/after Clean
		}
		if co.Got != want {
			c.violation(class, fmt.Sprintf("call %d (%s %q in %s) signalled %s, expected %s: %s", i+1, co.Call.API, co.Call.Val, co.Test, co.Got, want, vfClip(co.ErrText)), cs)
			return
		}
	}
	_, _, addrE, addrF := vfStaleSets(sc, o.m)
	c.outcome(fmt.Sprintf("delete=%v sort=%v count=%d run=%v", sc.mayDelete(), sc.maySort(), sc.Count, sc.Run != ""))
	// 1. nothing addressed is listed obsolete
	listed := map[string]bool{}
	for _, id := range o.summary.ObsTests {
		listed[id] = true
	}
	for f, ids := range addrE {
		for _, id := range ids {
			if listed[id] {
				c.violation(class, fmt.Sprintf("entry [%s] of %s was addressed in this run but is listed obsolete", id, f), cs)
				return
			}
		}
	}
	for _, lf := range o.summary.ObsFiles {
		for _, f := range addrF {
			if filepath.Base(lf) == f {
				c.violation(class, fmt.Sprintf("file %s was addressed in this run but is listed obsolete", f), cs)
				return
			}
		}
	}
	// 2. every addressed entry / file is still there with the same stored text
	for f, ids := range addrE {
		pre, _ := vfParse(o.before[f].Data)
		post, err := vfParse(o.after[f].Data)
		if _, truncated := sc.Append[f]; truncated && err != nil {
			continue // the file was malformed before Clean ran; what Clean makes of it is not judged
		}
		if err != nil {
			c.violation(class, fmt.Sprintf("%s malformed after Clean: %v", f, err), cs)
			return
		}
		for _, id := range ids {
			var pb, qb *string
			for i := range pre {
				if pre[i].ID == id {
					pb = &pre[i].Body
				}
			}
			n := 0
			for i := range post {
				if post[i].ID == id {
					qb = &post[i].Body
					n++
				}
			}
			if pb == nil {
				continue // the slot was never created (failing call on a missing slot)
			}
			if qb == nil {
				c.violation(class, fmt.Sprintf("entry [%s] of %s was addressed in this run and is gone after Clean (summary: %v)", id, f, o.summary.ObsTests), cs)
				return
			}
			// a CR before a line feed is not part of the replayed value (documented limitation): compared without it here, step 3 decides
			nocr := func(s string) string { return strings.TrimSuffix(strings.ReplaceAll(s, "\r\n", "\n"), "\r") }
			if n != 1 || nocr(*qb) != nocr(*pb) {
				c.violation(class, fmt.Sprintf("entry [%s] of %s was addressed in this run; after Clean it occurs %d times with text %q (was %q)", id, f, n, vfClip(*qb), vfClip(*pb)), cs)
				return
			}
		}
	}
	for _, f := range addrF {
		b, was := o.before[f]
		a, is := o.after[f]
		if was && !is {
			c.violation(class, fmt.Sprintf("file %s was addressed in this run and was removed by Clean", f), cs)
			return
		}
		if _, standalone := o.m.sfiles[f]; was && standalone && string(a.Data) != string(b.Data) {
			c.violation(class, fmt.Sprintf("standalone file %s was addressed in this run and was altered by Clean", f), cs)
			return
		}
	}
	// 3. a following read-only run of the same program: every call that passed still passes
	vfResetState(true, "", true)
	m2 := vfNewModel(true, "")
	obs2 := vfRunTests(o.dir, m2, sc.Tests)
	c.count("transitions", int64(len(obs2)))
	if sc.Tests2 != nil {
		return // the follow-up run below replays sc.Tests only; K9 cases stop at the Clean verdicts
	}
	first := o.callObs[:len(obs2)]
	for i, co := range obs2 {
		if first[i].Got == "pass" && co.Got != "pass" {
			c.violation(class, fmt.Sprintf("call %d (%s %q in %s) passed in this run; after Clean the same call signals %s: %s", i+1, co.Call.API, co.Call.Val, co.Test, co.Got, vfClip(co.ErrText)), cs)
			return
		}
	}
}

func init() {
	vfRegister("C07", func(c *vfCtx, emit func(c07Case)) {
		c.rule = "pairs of tests from the name alphabet x 7 call shapes (multi-entry over two files, standalone, failing calls that still consume their ordinal) x -count 1..3 x sort x CI x -run {none, anchored alternation}, " +
			"pre-existing directory with the addressed entries plus stale ones, in each UPDATE_SNAPS process; all cases distinct and non-trivial"
		c07Gen(c, emit)
		c07Varying(os.Getenv("UPDATE_SNAPS"), emit)
	}, c07Run)
}
