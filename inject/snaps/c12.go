//go:build verif

package snaps

import (
	"fmt"
	"os"
	"path/filepath"
	"reflect"
	"regexp"
	"sort"
	"strconv"
	"strings"
	"sync"
	"time"

	"github.com/gkampitakis/go-snaps/internal/verifhook/sched"
	"github.com/gkampitakis/go-snaps/match"
)

// C12 — Config values are immutable; calls through them are order-independent
// (DESIGN §6 C12).

type c12Case struct {
	Kind   string   `json:"kind"`   // seq | conc
	OptSet string   `json:"optset"` // none | ext | filename | dir | update | json | all
	Seq    []string `json:"seq"`    // seq: APIs called in order through ONE Config; conc: one API per thread
	Bound  int      `json:"bound,omitempty"`
	Sched  []int    `json:"schedule,omitempty"`
}

var c12APIs = []string{"snap", "json", "yaml", "ssnap", "sjson"}
var c12OptSets = []string{"none", "ext", "filename", "dir", "update", "json", "all", "jsonnoindent", "link"}

func c12Opts(set, dir string) []func(*Config) {
	o := []func(*Config){Dir(dir)}
	switch set {
	case "ext":
		o = append(o, Ext(".txt"))
	case "filename":
		o = append(o, Filename("cust"))
	case "dir":
		o = []func(*Config){Dir(filepath.Join(dir, "sub", "deep"))}
	case "link":
		// the snapshot directory is reached through a symbolic link and does not exist before the first call
		os.MkdirAll(filepath.Join(dir, "real"), 0o755)
		os.Symlink("real", filepath.Join(dir, "lnk"))
		o = []func(*Config){Dir(filepath.Join(dir, "lnk", "pkg", "__snapshots__"))}
	case "update":
		o = append(o, Update(true))
	case "updatefalse":
		o = append(o, Update(false))
	case "filenameUpper":
		o = append(o, Filename("CUST")) // differs from "filename" (cust) in letter case only
	case "extUpper":
		o = append(o, Ext(".TXT"))
	case "jsonwidth":
		// the default indent and key order, only the width differs
		o = append(o, JSON(JSONConfig{Indent: " ", SortKeys: true, Width: 40}))
	case "basejson":
		// ONE option value shared by every Config of the case that is built from it (c12SharedJSON is set per run)
		o = append(o, c12SharedJSON)
	case "basejson+more":
		o = append(o, c12SharedJSON, JSON(JSONConfig{Indent: "\t", SortKeys: false, Width: 3}))
	case "jsonnoindent":
		// a JSON option that leaves Indent at its zero value (documents are rendered without indentation)
		o = append(o, JSON(JSONConfig{SortKeys: true}))
	case "sharedname":
		// ONE Filename option value (ending in what looks like a snapshot suffix) shared by the Configs of the case
		o = append(o, c12SharedName)
	case "ext+sharedname":
		o = append(o, Ext(".json"), c12SharedName)
	case "sharedname+ext":
		o = append(o, c12SharedName, Ext(".json"))
	case "json":
		o = append(o, JSON(JSONConfig{Indent: "   ", Width: 10, SortKeys: false}))
	case "all":
		o = []func(*Config){Dir(filepath.Join(dir, "sub")), Ext(".txt"), Filename("cust"), Update(false), JSON(JSONConfig{Indent: "\t", SortKeys: true})}
	}
	return o
}

// vfDump renders any value (unexported fields and pointees included) without
// naming a single field of go-snaps: the whole struct is walked by reflection.
func vfDump(v reflect.Value) string {
	switch v.Kind() {
	case reflect.Ptr, reflect.Interface:
		if v.IsNil() {
			return "nil"
		}
		return "&" + vfDump(v.Elem())
	case reflect.Struct:
		if n := v.Type().Name(); n == "Mutex" || n == "RWMutex" {
			return "<lock>" // lock state is implied by the threads' positions; it is not data
		}
		var s []string
		for i := 0; i < v.NumField(); i++ {
			s = append(s, v.Type().Field(i).Name+":"+vfDump(v.Field(i)))
		}
		return "{" + strings.Join(s, " ") + "}"
	case reflect.String:
		return fmt.Sprintf("%q", v.String())
	case reflect.Bool:
		return fmt.Sprint(v.Bool())
	case reflect.Int, reflect.Int8, reflect.Int16, reflect.Int32, reflect.Int64:
		return fmt.Sprint(v.Int())
	case reflect.Uint, reflect.Uint8, reflect.Uint16, reflect.Uint32, reflect.Uint64, reflect.Uintptr:
		return fmt.Sprint(v.Uint())
	case reflect.Slice, reflect.Array:
		var s []string
		for i := 0; i < v.Len(); i++ {
			s = append(s, vfDump(v.Index(i)))
		}
		return "[" + strings.Join(s, " ") + "]"
	case reflect.Map:
		var s []string
		it := v.MapRange()
		for it.Next() {
			s = append(s, vfDump(it.Key())+"="+vfDump(it.Value()))
		}
		sort.Strings(s)
		return "map[" + strings.Join(s, " ") + "]"
	case reflect.Func, reflect.Chan, reflect.UnsafePointer:
		if v.IsNil() {
			return "nil"
		}
		return "<" + v.Kind().String() + ">"
	}
	return "<" + v.Kind().String() + ">"
}

func vfDumpCfg(c *Config) string { return vfDump(reflect.ValueOf(c)) }

func c12Val(api string, i int) any {
	switch api {
	case "json", "sjson":
		return fmt.Sprintf(`{"b":[1,2,3],"a":%d}`, i)
	case "yaml":
		return fmt.Sprintf("a: %d\n", i)
	}
	return fmt.Sprintf("value %d", i)
}

// c12FixedDoc: the ":x" variants of the JSON/YAML entry points all receive this ONE document, with different matcher lists
// (d = none, m = match.Any on a member, t = a match.Type that fails): what a call stores depends on ITS matchers only.
const c12FixedJSON = `{"b":[1,2,3],"a":0,"c":"s"}`
const c12FixedYAML = "b: [1, 2, 3]\na: 0\nc: s\n"

var c12FixedAPIs = []string{"json:d", "json:m", "json:t", "sjson:d", "sjson:m", "yaml:d", "yaml:m"}

func c12Do(cfg *Config, api string, t *vfT, i int) {
	switch api {
	case "json:d":
		cfg.MatchJSON(t, c12FixedJSON)
	case "json:m":
		cfg.MatchJSON(t, []byte(c12FixedJSON), match.Any("a"))
	case "json:t":
		cfg.MatchJSON(t, c12FixedJSON, match.Type[string]("a"))
	case "sjson:d":
		cfg.MatchStandaloneJSON(t, []byte(c12FixedJSON))
	case "sjson:m":
		cfg.MatchStandaloneJSON(t, c12FixedJSON, match.Any("a", "c"))
	case "yaml:d":
		cfg.MatchYAML(t, c12FixedYAML)
	case "yaml:m":
		cfg.MatchYAML(t, c12FixedYAML, match.Any("$.a"))
	case "snap":
		cfg.MatchSnapshot(t, c12Val(api, i))
	case "json":
		cfg.MatchJSON(t, c12Val(api, i))
	case "yaml":
		cfg.MatchYAML(t, c12Val(api, i))
	case "ssnap":
		cfg.MatchStandaloneSnapshot(t, c12Val(api, i))
	case "sjson":
		cfg.MatchStandaloneJSON(t, c12Val(api, i))
	}
}

// c12WithIDs: pair cases compare the addressed slot too (two Configs do not share ordinals unless they address the same file)
var c12WithIDs bool

var c12OrdRe = regexp.MustCompile(`_\d+\.snap`)

// c12Created lists what a call created or changed, with standalone ordinals
// normalised (the k-th standalone call legitimately lands in file k).
func c12Created(before, after vfDirObs) []string {
	var out []string
	for n, a := range after {
		if a.IsDir {
			continue
		}
		if b, ok := before[n]; !ok || string(b.Data) != string(a.Data) {
			// what the call stored: the whole standalone file, or the entry it appended to the multi-entry file
			stored := string(a.Data)
			if !c12OrdRe.MatchString(n) {
				if es, err := vfParse(a.Data); err == nil && len(es) > 0 {
					stored = es[len(es)-1].Body
					if c12WithIDs {
						stored = "[" + es[len(es)-1].ID + "] " + stored
					}
				}
			} else if c12WithIDs {
				stored = n + ": " + stored // the ordinal in the file name counts too
			}
			out = append(out, c12OrdRe.ReplaceAllString(n, "_N.snap")+" <- "+strconv.Quote(stored))
		}
	}
	sort.Strings(out)
	return out
}

func c12Gen(c *vfCtx, emit func(c12Case)) {
	var seqs [][]string
	var rec func(acc []string)
	rec = func(acc []string) {
		if len(acc) > 0 {
			seqs = append(seqs, append([]string{}, acc...))
		}
		if len(acc) == 3 {
			return
		}
		for _, a := range c12APIs {
			rec(append(acc, a))
		}
	}
	rec(nil)
	c.bound("sequences_per_option_set", len(seqs))
	c.bound("option_sets", c12OptSets)
	// the same document through one Config with different matcher lists (<= 3 calls)
	var rec2 func(acc []string)
	rec2 = func(acc []string) {
		if len(acc) > 1 {
			seqs = append(seqs, append([]string{}, acc...))
		}
		if len(acc) == 3 {
			return
		}
		for _, a := range c12FixedAPIs {
			rec2(append(acc, a))
		}
	}
	rec2(nil)
	for _, a := range c12FixedAPIs {
		seqs = append(seqs, []string{a})
	}
	c.bound("sequences_per_option_set_with_fixed_document_variants", len(seqs))
	for _, os := range c12OptSets {
		for _, s := range seqs {
			emit(c12Case{Kind: "seq", OptSet: os, Seq: s})
		}
	}
	// two Configs built one after the other in one process, differing in their options: the second behaves as if it were alone
	pairSets := []string{"none", "update", "updatefalse", "ext", "json", "filename", "basejson", "basejson+more", "jsonwidth", "filenameUpper", "extUpper", "jsonnoindent", "sharedname", "ext+sharedname", "sharedname+ext"}
	for _, x := range pairSets {
		for _, y := range pairSets {
			if x == y {
				continue
			}
			for _, a := range c12APIs {
				emit(c12Case{Kind: "pair", OptSet: x, Seq: []string{y, a}})
				// the same, with a call through the first Config before the call through the second
				emit(c12Case{Kind: "pair", OptSet: x, Seq: []string{y, a, "xcall"}})
			}
		}
	}
	// one shared helper in a non-test file, reached from two different test files, in both orders, through Configs without a Filename
	for _, order := range []string{"c12,common", "common,c12", "c12,common,c12", "common,common,c12"} {
		emit(c12Case{Kind: "callers", OptSet: "none", Seq: strings.Split(order, ",")})
	}
	// concurrent use of ONE Config: every pair (and, thorough, triple) of entry points, every schedule
	bound := 2
	for _, os := range []string{"none", "filename", "all"} {
		for _, a := range c12APIs {
			for _, b := range c12APIs {
				emit(c12Case{Kind: "conc", OptSet: os, Seq: []string{a, b}, Bound: bound})
				if c.thorough() {
					emit(c12Case{Kind: "conc", OptSet: os, Seq: []string{a, b}, Bound: -1})
					for _, d := range []string{"snap", "sjson"} {
						emit(c12Case{Kind: "conc", OptSet: os, Seq: []string{a, b, d}, Bound: 1})
					}
				}
			}
		}
	}
}

// c12SharedJSON: an option VALUE (the func returned by snaps.JSON) reused across WithConfig calls, as a project-wide base would be
var c12SharedJSON func(*Config)

// c12SharedName: likewise a Filename option value
var c12SharedName func(*Config)

// c12Canary: what Configs WITHOUT any formatting option (and hence the package-level defaults) store for a fixed document.
// Taken once per process before the first case touches anything, and again after every case: no call through any Config may change it.
var c12CanaryBase string

func c12CanaryText(c *vfCtx) string {
	d := filepath.Join(c.scratch, "canary")
	os.RemoveAll(d)
	os.MkdirAll(d, 0o755)
	vfResetState(false, "", true)
	t := &vfT{name: "TestCanary"}
	cfg := WithConfig(Dir(d))
	cfg.MatchStandaloneJSON(t, `{"z":[1,2,3],"a":{"k":"v","arr":[{"x":1},{"y":[true,null]}]}}`)
	cfg.MatchSnapshot(t, map[string]any{"b": []int{1, 2}, "a": "x"})
	cfg.MatchYAML(t, map[string]any{"l": []any{1, "two"}, "k": map[string]int{"z": 1, "y": 2}})
	t.end()
	return string(vfAllBytes(d))
}

func c12Canary(c *vfCtx, cs c12Case, when string) bool {
	txt := c12CanaryText(c)
	if c12CanaryBase == "" {
		c12CanaryBase = txt
		return true
	}
	if txt != c12CanaryBase {
		c.violation("", fmt.Sprintf("%s: a Config built without any formatting option now stores %q; at the start of the process it stored %q (the package defaults were changed by a call through another Config)", when, vfClip(txt), vfClip(c12CanaryBase)), cs)
		c12CanaryBase = txt // report once per change
		return false
	}
	return true
}

// c12Pair: WithConfig(X) then WithConfig(Y) in the same directory; one call through Y, compared with Y built alone elsewhere.
func c12Pair(c *vfCtx, cs c12Case) {
	c.addSet("nontrivial", vfHashJSON(cs))
	c12Canary(c, cs, "before the case")
	defer c12Canary(c, cs, "after the case")
	x, y, api := cs.OptSet, cs.Seq[0], cs.Seq[1]
	// directories no earlier case of this process has built a Config for (a process-wide memo keyed by the options would otherwise
	// already hold Configs for them, in the pair run and in the reference run alike)
	tag := fmt.Sprintf("%x", vfHashJSON(cs))
	dir := filepath.Join(c.newWorld(), "pair-"+tag)
	dir2 := filepath.Join(c.scratch, "w2", "alone-"+tag)
	os.RemoveAll(filepath.Join(c.scratch, "w2"))
	os.MkdirAll(dir, 0o755)
	os.MkdirAll(dir2, 0o755)
	// names of files changed between two observations of a directory
	changed := func(a, b vfDirObs) map[string]bool {
		out := map[string]bool{}
		for n, o := range b {
			if p, ok := a[n]; !o.IsDir && (!ok || string(p.Data) != string(o.Data)) {
				out[n] = true
			}
		}
		return out
	}
	run := func(d string, first string) (string, []string, []string) {
		vfResetState(false, "", true)
		c12SharedJSON = JSON(JSONConfig{Indent: "  ", SortKeys: true, Width: 40})
		c12SharedName = Filename("api.snap.json")
		var cfg *Config
		if y == "basejson" {
			// built BEFORE the other one: building another Config later must not change this one
			cfg = WithConfig(c12Opts(y, d)...)
		}
		// both calls are made by the SAME test (one execution): ordinals are per (file, test), so the call through the second
		// Config gets ordinal 1 exactly when the two Configs address different files
		t := &vfT{name: "TestA"}
		xFiles := map[string]bool{}
		if first != "" {
			cx := WithConfig(c12Opts(first, d)...)
			if len(cs.Seq) > 2 {
				b0 := vfSnapDir(d)
				c12Do(cx, api, t, 5)
				xFiles = changed(b0, vfSnapDir(d))
				c.count("transitions", 1)
			}
		}
		if cfg == nil {
			cfg = WithConfig(c12Opts(y, d)...)
		}
		before := vfSnapDir(d)
		mk := t.mark()
		c12Do(cfg, api, t, 0)
		t.end()
		c.count("transitions", 1)
		after := vfSnapDir(d)
		_ = xFiles
		// the two Configs address the same file exactly when their Dir / Filename / Ext options agree
		addr := func(set string) string {
			switch set {
			case "sharedname":
				if api == "sjson" {
					return "sharedname.json" // the extension .json is MatchStandaloneJSON's default
				}
				return set
			case "ext", "extUpper", "filename", "filenameUpper", "dir", "all":
				return set
			case "ext+sharedname", "sharedname+ext":
				return "sharedname.json"
			}

			return "default"
		}
		sameFile := first != "" && len(cs.Seq) > 2 && addr(first) == addr(y)
		c12WithIDs = !sameFile
		withIDs := c12Created(before, after)
		c12WithIDs = false
		return t.outcome(mk), withIDs, c12Created(before, after)
	}
	defer func() { c12WithIDs = false }()
	aloneO, aloneC, aloneN := run(dir2, "")
	pairO, pairC, pairN := run(dir, x)
	if fmt.Sprint(pairC) == fmt.Sprint(pairN) {
		aloneC = aloneN // the two Configs address the same file: the ordinal legitimately moved on
	}
	c.outcome("pair:" + pairO)
	c.addSet("states", vfHash(x, y, api, pairO, fmt.Sprint(pairC)))
	if pairO != aloneO || fmt.Sprint(pairC) != fmt.Sprint(aloneC) {
		c.violation("", fmt.Sprintf("a Config with options %q built after one with options %q: %s signalled %s and wrote %v; built alone it signals %s and writes %v", y, x, api, pairO, pairC, aloneO, aloneC), cs)
	}
}

// c12Callers: where a call without a Filename option stores depends on the test file it is made from, never on who used
// the same helper before.
func c12Callers(c *vfCtx, cs c12Case) {
	c.addSet("nontrivial", vfHashJSON(cs))
	dir := c.newWorld()
	vfResetState(false, "", true)
	cfg := WithConfig(Dir(dir))
	want := map[string][]string{}
	for i, from := range cs.Seq {
		t := &vfT{name: fmt.Sprintf("TestFrom_%s_%d", from, i)}
		if from == "c12" {
			vfNonTestMatch(cfg, t, fmt.Sprintf("value %d", i))
		} else {
			vfViaCommon(cfg, t, fmt.Sprintf("value %d", i))
		}
		t.end()
		c.count("transitions", 1)
		f := "zz_verif_" + from + "_test.snap"
		want[f] = append(want[f], t.name+" - 1")
		if len(t.errs) > 0 {
			c.violation("", fmt.Sprintf("helper call %d from %s failed: %v", i+1, from, t.errs), cs)
			return
		}
	}
	obs := vfSnapDir(dir)
	c.addSet("states", vfHash(fmt.Sprint(vfHashDir(obs))))
	for f, ids := range want {
		es, err := vfParse(obs[f].Data)
		var got []string
		for _, e := range es {
			got = append(got, e.ID)
		}
		if err != nil || vfStrs(got) != vfStrs(ids) {
			var files []string
			for n := range obs {
				files = append(files, n)
			}
			c.violation("", fmt.Sprintf("calls made through one non-test helper from the test files %v: %s should hold %v, it holds %v (%v); files: %v", cs.Seq, f, ids, got, err, vfSorted(files)), cs)
			return
		}
	}
}

func c12Run(c *vfCtx, cs c12Case) {
	if cs.Kind == "callers" {
		c12Callers(c, cs)
		return
	}
	if cs.Kind == "conc" {
		c12Conc(c, cs)
		return
	}
	if cs.Kind == "pair" {
		c12Pair(c, cs)
		return
	}
	c.addSet("nontrivial", vfHashJSON(cs))
	c12Canary(c, cs, "before the case")
	defer c12Canary(c, cs, "after the case")
	dir := c.newWorld()
	vfResetState(false, "", true)
	opts := c12Opts(cs.OptSet, dir)
	cfg := WithConfig(opts...)
	sib := WithConfig(opts...)
	// an independent Config built BEFORE the sequence runs, used afterwards for the differential
	dir2 := filepath.Join(c.scratch, "w2")
	os.RemoveAll(dir2)
	os.MkdirAll(dir2, 0o755)
	cfg2 := WithConfig(c12Opts(cs.OptSet, dir2)...)
	d0, s0, def0 := vfDumpCfg(cfg), vfDumpCfg(sib), vfDumpCfg(WithConfig())
	t := &vfT{name: "TestA"}
	var lastCreated, firstOutcomes []string
	lastOutcome := ""
	for i, api := range cs.Seq {
		before := vfSnapDir(dir)
		mk := t.mark()
		c12Do(cfg, api, t, i)
		c.count("transitions", 1)
		lastOutcome = t.outcome(mk)
		firstOutcomes = append(firstOutcomes, lastOutcome)
		lastCreated = c12Created(before, vfSnapDir(dir))
		// representation changes of the Config itself are only counted: a benign
		// internal cache keeps the property true; the verdict is behavioural (below)
		if vfDumpCfg(cfg) != d0 || vfDumpCfg(sib) != s0 {
			c.count("config_representation_changes_observed", 1)
		}
		if d := vfDumpCfg(WithConfig()); d != def0 {
			c.violation("", fmt.Sprintf("call %d (%s) changed the package defaults: %s -> %s", i+1, api, def0, d), cs)
			return
		}
	}
	t.end()
	c.addSet("states", vfHash(cs.OptSet, fmt.Sprint(lastCreated), fmt.Sprint(vfHashDir(vfSnapDir(dir)))))
	// a second execution of the same test through the same Config (what -count 2 does): every call finds the slot it wrote
	{
		tb := &vfT{name: "TestA"}
		beforeB := vfSnapDir(dir)
		for i, api := range cs.Seq {
			mk := tb.mark()
			c12Do(cfg, api, tb, i)
			c.count("transitions", 1)
			want := "pass"
			if firstOutcomes[i] == "failed" {
				want = "failed" // rejected, or creation not allowed by the options: the same again
			}
			if got := tb.outcome(mk); got != want {
				c.violation("", fmt.Sprintf("second execution of %v through the same Config: call %d (%s) signalled %s, expected %s: %v", cs.Seq, i+1, api, got, want, tb.errs), cs)
				return
			}
		}
		tb.end()
		if d := vfDirDiff(beforeB, vfSnapDir(dir), false); d != "" {
			c.violation("", fmt.Sprintf("second execution of %v through the same Config changed the directory: %s", cs.Seq, d), cs)
			return
		}
	}
	// differential: the last call alone, through the independent Config, into an empty directory
	last := cs.Seq[len(cs.Seq)-1]
	vfResetState(false, "", true)
	t2 := &vfT{name: "TestA"}
	before := vfSnapDir(dir2)
	mk := t2.mark()
	c12Do(cfg2, last, t2, len(cs.Seq)-1)
	t2.end()
	c.count("transitions", 1)
	alone := c12Created(before, vfSnapDir(dir2))
	c.outcome(lastOutcome)
	if o := t2.outcome(mk); o != lastOutcome {
		c.violation("", fmt.Sprintf("%s after %v signalled %s, alone on a fresh Config it signals %s", last, cs.Seq[:len(cs.Seq)-1], lastOutcome, o), cs)
		return
	}
	if fmt.Sprint(alone) != fmt.Sprint(lastCreated) {
		c.violation("", fmt.Sprintf("%s after %v (same Config) wrote %v; alone on a fresh Config it writes %v", last, cs.Seq[:len(cs.Seq)-1], lastCreated, alone), cs)
	}
}

// c12SharedStandalone: two threads whose standalone calls resolve to the same
// generic file name (custom Filename) share files and one ordinal counter by
// definition; "one slot per test call" does not hold there (DESIGN §6 C06, out
// of the alphabet), so such combinations are not given a verdict.
func c12SharedStandalone(cs c12Case) bool {
	if cs.OptSet != "filename" && cs.OptSet != "all" {
		return false
	}
	seen := map[string]bool{}
	for _, api := range cs.Seq {
		if api != "ssnap" && api != "sjson" {
			continue
		}
		k := api
		if cs.OptSet == "all" {
			k = "ext" // Ext(".txt") given: both standalone APIs use cust_%d.snap.txt
		}
		if seen[k] {
			return true
		}
		seen[k] = true
	}
	return false
}

// c12Conc: n threads, one call each, all through ONE *Config; every schedule.
func c12Conc(c *vfCtx, cs c12Case) {
	if c12SharedStandalone(cs) {
		c.count("excluded_shared_standalone_name", 1)
		return
	}
	var dir string
	var ts []*vfT
	var outs []string
	mk := func() []func() {
		dir = filepath.Join(c.scratch, "e2w")
		os.RemoveAll(dir)
		os.MkdirAll(dir, 0o755)
		vfResetState(false, "", true)
		cfg := WithConfig(c12Opts(cs.OptSet, dir)...)
		ts, outs = nil, make([]string, len(cs.Seq))
		var bodies []func()
		for i, api := range cs.Seq {
			i, api := i, api
			t := &vfT{name: fmt.Sprintf("TestT%d", i)}
			ts = append(ts, t)
			bodies = append(bodies, func() {
				m := t.mark()
				c12Do(cfg, api, t, 7)
				outs[i] = t.outcome(m)
				t.end()
			})
		}
		return bodies
	}
	sched.MemKey = vfMemKey
	sched.FSKey = func() uint64 { return vfHashDir(vfSnapDir(dir)) }
	// reference: the serial execution in thread order (schedule of all zeros)
	x0 := sched.Run(nil, mk(), nil)
	if x0.Deadlock || len(x0.Panics) > 0 {
		c.violation("", fmt.Sprintf("serial execution: deadlock=%v panics=%v", x0.Deadlock, x0.Panics), cs)
		return
	}
	norm := func() string {
		obs := vfSnapDir(dir)
		var names []string
		for n, o := range obs {
			if !o.IsDir {
				// content of multi-entry files as a set of entries (append order is schedule dependent)
				if es, err := vfParse(o.Data); err == nil && len(es) > 0 && !c12OrdRe.MatchString(n) {
					var ids []string
					for _, e := range es {
						ids = append(ids, e.ID+"="+e.Body)
					}
					sort.Strings(ids)
					names = append(names, n+"{"+strings.Join(ids, ";")+"}")
				} else {
					names = append(names, n+"="+string(o.Data))
				}
			}
		}
		sort.Strings(names)
		return strings.Join(names, " | ") + " outcomes=" + fmt.Sprint(outs)
	}
	_ = x0
	// reference: the results of ALL serial orders (no preemption: threads switch only when one ends)
	serial := map[string]bool{}
	var serialList []string
	sched.Explore(0, nil, 0, mk, func(x *sched.Exec) bool {
		r := norm()
		if !serial[r] {
			serial[r] = true
			serialList = append(serialList, r)
		}
		return true
	})
	want := strings.Join(serialList, "\n   or: ")
	if cs.Sched != nil {
		x := sched.Run(cs.Sched, mk(), nil)
		if got := norm(); !serial[got] || x.Deadlock {
			c.violation("", fmt.Sprintf("schedule %v: %s\n  serial results: %s\n  steps: %s", cs.Sched, got, want, strings.Join(x.Trace, " ")), cs)
		}
		return
	}
	if len(cs.Seq) > 1 {
		c.addSet("nontrivial", vfHashJSON(cs))
	}
	reported := false
	stop := func() bool { return !c.deadline.IsZero() && time.Now().After(c.deadline) }
	st := sched.ExploreUntil(cs.Bound, nil, 0, stop, mk, func(x *sched.Exec) bool {
		c.count("transitions", int64(len(x.Points)))
		got := norm()
		c.addSet("states", vfHash(fmt.Sprint(cs.Seq), cs.OptSet, got))
		if x.Deadlock || len(x.Panics) > 0 || !serial[got] {
			if !reported {
				v := cs
				v.Sched = append([]int{}, x.Choices...)
				c.violation("", fmt.Sprintf("threads %v through one Config, schedule with %d preemption(s) (deadlock=%v): %s\n  serial results: %s\n  steps: %s",
					cs.Seq, x.Preemptions(len(x.Points)), x.Deadlock, got, want, strings.Join(x.Trace, " ")), v)
				reported = true
			} else {
				c.violCounts[""]++
			}
		}
		return true
	})
	c.count("schedules", int64(st.Executions))
	if st.Capped {
		c.cap("deadline")
		c.stopped = true
	}
	c.outcome(fmt.Sprintf("conc threads=%d bound=%d", len(cs.Seq), cs.Bound))
}

func c12Race(c *vfCtx) {
	reps := 40
	if c.thorough() {
		reps = 200
	}
	for _, osn := range []string{"none", "filename", "all"} {
		for _, a := range c12APIs {
			for _, b := range c12APIs {
				for r := 0; r < reps; r++ {
					dir := filepath.Join(c.scratch, "racew")
					os.RemoveAll(dir)
					os.MkdirAll(dir, 0o755)
					vfResetState(false, "", true)
					cfg := WithConfig(c12Opts(osn, dir)...)
					var wg sync.WaitGroup
					start := make(chan struct{})
					for i, api := range []string{a, b, a} {
						wg.Add(1)
						i, api := i, api
						go func() {
							defer wg.Done()
							t := &vfT{name: fmt.Sprintf("TestT%d", i)}
							<-start
							c12Do(cfg, api, t, i)
							t.end()
						}()
					}
					close(start)
					wg.Wait()
					c.count("race_runs", 1)
				}
			}
		}
	}
}

func init() {
	vfRegister("C12", func(c *vfCtx, emit func(c12Case)) {
		c.rule = "7 option sets x every sequence of <=3 calls over the five entry points through ONE Config (155 per set): reflection dump of the Config, a sibling and the defaults after every call, " +
			"differential 'last call after the others' vs 'last call alone'; plus every pair of entry points run concurrently through one Config under every schedule within the preemption bound"
		c.assume("concurrent part: same scheduler assumptions as C06 (atomic fs operations, unsynchronised accesses left to the -race pass)")
		c12Gen(c, emit)
	}, c12Run)
	vfDrivers["C12"].race = c12Race
}
