//go:build verif

package snaps

import (
	"fmt"
	"os"
	"path/filepath"
	"strings"

	"github.com/gkampitakis/go-snaps/internal/verifhook/sched"
	"github.com/kr/pretty"
)

// vfTestExec is one execution of a test: its calls in order, then end-of-test.
type vfTestExec struct {
	Name  string   `json:"name"`
	Calls []vfCall `json:"calls"`
}

type vfCallObs struct {
	Test    string
	Call    vfCall
	Got     string // outcome observed on the real code
	Want    string // outcome of the model
	Slot    string // slot state in the model before the call
	ID      string
	Muts    []sched.Op // mutating fs operations during the call
	ErrText string
}

// vfFormat is the reference "formatted value": kr/pretty's Sprint (the
// documented formatter) for MatchSnapshot / MatchStandaloneSnapshot, the input
// text itself for MatchYAML with string or []byte input.
func vfFormat(cl vfCall) string {
	if cl.API == "snap" || cl.API == "ssnap" {
		// MatchSnapshot / MatchStandaloneSnapshot store pretty.Sprint(value): the identity on most
		// strings, but e.g. tab characters are consumed by the formatter's tabwriter
		return pretty.Sprint(cl.Val)
	}
	return cl.Val
}

// vfRunTests executes the test executions sequentially on the real code and on
// the model in lock-step.
func vfRunTests(dir string, m *vfModel, tests []vfTestExec) []vfCallObs {
	var out []vfCallObs
	for _, te := range tests {
		t := &vfT{name: te.Name}
		for _, cl := range te.Calls {
			mk := t.mark()
			ops := vfLogged(func() { cl.do(t, dir) })
			o := vfCallObs{Test: te.Name, Call: cl, Got: t.outcome(mk), Muts: vfMutOps(ops)}
			if len(t.errs) > mk.e {
				o.ErrText = t.errs[mk.e]
			}
			o.Want, o.Slot, o.ID = m.call(te.Name, cl, vfFormat(cl))
			out = append(out, o)
		}
		t.end()
		m.endTest(te.Name)
	}
	return out
}

// vfWriteModelFiles materialises the model's files in dir (pre-existing content).
func vfWriteModelFiles(dir string, m *vfModel) {
	for f := range m.files {
		if err := os.WriteFile(filepath.Join(dir, f), m.render(f), 0o644); err != nil {
			panic(err)
		}
	}
	for f, data := range m.sfiles {
		if err := os.WriteFile(filepath.Join(dir, f), []byte(data), 0o644); err != nil {
			panic(err)
		}
	}
}

// vfCheckDisk compares the directory with the model: parse(disk) == M for
// multi-entry files, bytes for standalone files, and the set of names.
func vfCheckDisk(dir string, m *vfModel) string {
	var probs []string
	obs := vfSnapDir(dir)
	for f := range m.files {
		o, ok := obs[f]
		if !ok {
			if len(m.files[f]) == 0 {
				continue
			}
			probs = append(probs, "file "+f+" missing")
			continue
		}
		got, err := vfParse(o.Data)
		if err != nil {
			probs = append(probs, fmt.Sprintf("file %s is malformed: %v (bytes %q)", f, err, vfClip(string(o.Data))))
			continue
		}
		if want := m.entries(f); !vfEntriesEqual(got, want) {
			probs = append(probs, fmt.Sprintf("file %s holds %s, model %s", f, vfShowEntries(got), vfShowEntries(want)))
		}
	}
	for f, data := range m.sfiles {
		o, ok := obs[f]
		if !ok {
			probs = append(probs, "standalone file "+f+" missing")
			continue
		}
		if string(o.Data) != data {
			probs = append(probs, fmt.Sprintf("standalone file %s = %q, model %q", f, vfClip(string(o.Data)), vfClip(data)))
		}
	}
	for f, o := range obs {
		if o.IsDir {
			continue
		}
		_, a := m.files[f]
		_, b := m.sfiles[f]
		if !a && !b {
			probs = append(probs, "unexpected file "+f)
		}
	}
	return strings.Join(probs, "; ")
}

// vfAllBodies lists every stored body of the model's multi-entry files.
func vfAllBodies(m *vfModel) []string {
	var out []string
	for _, es := range m.files {
		for _, e := range es {
			out = append(out, e.Body)
		}
	}
	return out
}

// vfAddressedIDs lists the ids "[name - k]" the model has seen addressed.
func vfAddressedIDs(m *vfModel) []string {
	var out []string
	for key, ks := range m.addressed {
		test := key[strings.Index(key, "\x00")+1:]
		for k := range ks {
			out = append(out, fmt.Sprintf("%s - %d", test, k))
		}
	}
	return out
}

// vfClassK2: known finding K2 applies to a trace iff a body line somewhere in
// the multi-entry files equals the header of a slot the trace addresses.
func vfClassK2(m *vfModel, extraBodies ...string) bool {
	return vfShadow(append(vfAllBodies(m), extraBodies...), vfAddressedIDs(m))
}
