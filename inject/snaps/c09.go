//go:build verif

package snaps

import (
	"fmt"
	"os"
	"path/filepath"
	"sort"
	"strings"
)

// C09 — Clean reports every stale item, deletes only in clean mode, touches
// nothing else (DESIGN §6 C09). test.run = "" throughout.

type c09Case struct {
	Sc vfCleanScenario `json:"sc"`
}

func c09Gen(c *vfCtx, emit func(c09Case)) {
	env := os.Getenv("UPDATE_SNAPS")
	c.bound("update_snaps_of_this_process", env)
	staleEntryChoices := []vfEntry{
		{ID: "TestOld - 1", Body: "old"},   // first position
		{ID: "TestA - 3", Body: "beyond"},  // beyond the current ordinal of TestA
		{ID: "TestA/old - 1", Body: "sub"}, // stale subtest of a live test
		{ID: "TestB - 2", Body: "b2\n\nx"}, // last position
	}
	staleFileChoices := []string{"stale.snap", "TestOld_1.snap", "x.snap.bak", "custom.snap.txt"}
	counts := []int{1, 2}
	if c.thorough() {
		counts = []int{1, 2, 3}
	}
	for mask := 0; mask < 1<<len(staleEntryChoices); mask++ {
		for fmask := 0; fmask < 1<<len(staleFileChoices); fmask++ {
			if !c.thorough() && fmask != 0 && fmask != 15 && fmask != 1<<uint(mask%4) {
				continue
			}
			for _, unsorted := range []bool{false, true} {
				for _, sa := range []int{0, 1} {
					for _, cnt := range counts {
						for _, srt := range []bool{false, true} {
							for _, ci := range []bool{false, true} {
								for _, skip := range []bool{false, true} {
									if !c.thorough() && skip && (cnt == 2 || sa == 1) {
										continue
									}
									variant := (mask + fmask + cnt + sa) % 4
									sc := vfCleanScenario{DirSpell: []string{"", "", "slash", "dot"}[(mask+fmask+sa)%4], DirName: []string{"", "w.snap.d", "pkg[1]", ".snapshots"}[variant], Count: cnt, CI: ci, Sort: srt, Env: env, SFiles: map[string]string{}, Other: map[string]string{"notes.txt": "n", "snapnotes": "no dot",
										// Go sources next to the snapshot directory, named after the stale files, holding no test function: without -run they protect nothing
										"../stale.go": "package x\n\ntype fixture struct{}\n\nfunc (fixture) TestLike() {}\nfunc helper() {}\n", "../F.go": "package x\n\nvar _ = 1\n"}, Dirs: []string{"d.snap"}}
									sc.CRLF = (mask+fmask+cnt+sa)%5 == 4
									var es []vfEntry
									staleEntryChoices := staleEntryChoices
									if (mask+fmask+cnt+sa)%3 == 2 {
										// stale ids that are no id the library hands out, but read as numbers at or below the ordinals reached
										staleEntryChoices = []vfEntry{{ID: "TestOld - 0", Body: "old"}, {ID: "TestA - 02", Body: "beyond"}, {ID: "TestA/old - 00", Body: "sub"}, {ID: "TestB - 99999999999999999999", Body: "b2\n\nx"}}
									}
									if (mask+fmask+cnt+sa)%3 == 1 {
										// stale ids that differ only in leading zeros of a number (equal under natural ordering): each is an item of its own
										staleEntryChoices = []vfEntry{{ID: "TestOld/7 - 1", Body: "old"}, {ID: "TestOld/07 - 1", Body: "beyond"}, {ID: "TestA/old - 1", Body: "sub"}, {ID: "TestOld/007 - 1", Body: "b2\n\nx"}}
									}
									if mask&1 != 0 {
										es = append(es, staleEntryChoices[0])
									}
									// half of the cases: a LIVE value with lines shaped like entry headers (they are text, not entries, in every mode)
									b1 := "b1"
									if (mask+fmask+cnt)%2 == 1 {
										b1 = "board:\n[backlog - 3]\n  ---\n--- \n\t---\n[TestQ/x - 12]\nend"
									}
									live := []vfEntry{{ID: "TestA - 1", Body: "a1"}, {ID: "TestA - 2", Body: "a2"}, {ID: "TestB - 1", Body: b1}}
									if unsorted {
										live = []vfEntry{{ID: "TestB - 1", Body: b1}, {ID: "TestA - 2", Body: "a2"}, {ID: "TestA - 1", Body: "a1"}}
									}
									es = append(es, live[0])
									if mask&2 != 0 {
										es = append(es, staleEntryChoices[1])
									}
									es = append(es, live[1], live[2])
									if mask&4 != 0 {
										es = append(es, staleEntryChoices[2])
									}
									if mask&8 != 0 {
										es = append(es, staleEntryChoices[3])
									}
									if skip {
										sc.Skips = []string{"TestSkip"}
										if (mask+fmask)%2 == 1 {
											// more tests that skip themselves, named so that they sort between TestSkip and its subtests (`#`, `-`, `.` < `/`)
											sc.Skips = []string{"TestSkip-a", "TestSkip", "TestSkip#01", "TestSkip.b"}
										}
										es = append(es, vfEntry{ID: "TestSkip - 1", Body: "s"}, vfEntry{ID: "TestSkip/sub - 1", Body: "s"}, vfEntry{ID: "TestSkipX - 1", Body: "sibling"})
									}
									sc.Files = []vfNamedFile{{Name: "f.snap", Entries: es}}
									if skip {
										// files that only the skipped test owns: a multi-entry file (with one stale neighbour) and standalone files
										sc.Files = append(sc.Files, vfNamedFile{Name: "skipowned.snap", Entries: []vfEntry{{ID: "TestSkip/sub - 1", Body: "keep"}, {ID: "TestSkipX - 1", Body: "stale neighbour"}, {ID: "TestSkip - 2", Body: "keep"}}})
										sc.SFiles["TestSkip_1.snap"] = "keep"
										sc.SFiles["TestSkip_sub_2.snap.json"] = "{}"
										sc.SFiles["TestSkipX_1.snap"] = "stale sibling file"
									}
									if (mask+fmask)%2 == 0 {
										// stale files whose names equal an addressed file's name up to letter case
										sc.Files = append(sc.Files, vfNamedFile{Name: "F.snap", Entries: []vfEntry{{ID: "TestA - 1", Body: "other case"}}})
										sc.SFiles["testa_1.snap"] = "other case"
										sc.SFiles["TESTA_1.SNAP"] = "upper case: no .snap in this name"
									}
									for i, n := range staleFileChoices {
										if fmask&(1<<i) == 0 {
											continue
										}
										if n == "stale.snap" {
											sc.Files = append(sc.Files, vfNamedFile{Name: n, Entries: []vfEntry{{ID: "TestGone - 1", Body: "g"}}})
										} else {
											sc.SFiles[n] = "raw " + n
										}
									}
									ta := vfTestExec{Name: "TestA", Calls: []vfCall{{API: "snap", Val: "a1"}, {API: "snap", Val: "a2"}}}
									if sa == 1 {
										ta.Calls = append(ta.Calls, vfCall{API: "ssnap", Val: "sa1"})
										sc.SFiles["TestA_1.snap"] = "sa1"
										sc.SFiles["TestA_2.snap"] = "beyond the ordinal"
									}
									if variant >= 2 {
										// a second addressed multi-entry file that needs no rewrite and is examined first
										sc.Files = append(sc.Files, vfNamedFile{Name: "a.snap", Entries: []vfEntry{{ID: "TestA - 1", Body: "x1"}, {ID: "TestA - 2", Body: "x2"}, {ID: "TestA - 3", Body: "x3"}}})
										ta.Calls = append(ta.Calls, vfCall{API: "snap", Val: "x1", File: "a"}, vfCall{API: "snap", Val: "x2", File: "a"}, vfCall{API: "snap", Val: "x3", File: "a"})
									}
									sc.Tests = []vfTestExec{ta, {Name: "TestB", Calls: []vfCall{{API: "snap", Val: b1}}}}
									emit(c09Case{Sc: sc})
								}
							}
						}
					}
				}
			}
		}
	}
}

// c09Varying: -count > 1 with a test whose number of calls differs between the executions (3 then 2, 2 then 3, 1 then 3):
// a slot addressed in ANY execution is live; the slots beyond the highest ordinal reached are stale.
func c09Varying(env string, emit func(c09Case)) {
	calls := func(n int, file string) []vfCall {
		var cl []vfCall
		for i := 1; i <= n; i++ {
			cl = append(cl, vfCall{API: "snap", Val: fmt.Sprintf("v%d", i), File: file})
		}
		return cl
	}
	for _, cnt := range []int{2, 3} {
		for _, nn := range [][2]int{{3, 2}, {2, 3}, {1, 3}, {3, 1}} {
			for _, srt := range []bool{false, true} {
				for _, sa := range []bool{false, true} {
					sc := vfCleanScenario{Count: cnt, Sort: srt, Env: env, SFiles: map[string]string{}, Other: map[string]string{"notes.txt": "n"}}
					es := []vfEntry{{ID: "TestVar - 4", Body: "beyond"}, {ID: "TestVar - 3", Body: "v3"}, {ID: "TestVar - 1", Body: "v1"}, {ID: "TestVar - 2", Body: "v2"}, {ID: "TestB - 1", Body: "v1"}, {ID: "TestOld - 1", Body: "old"}}
					sc.Files = []vfNamedFile{{Name: "f.snap", Entries: es}}
					first := vfTestExec{Name: "TestVar", Calls: calls(nn[0], "")}
					later := vfTestExec{Name: "TestVar", Calls: calls(nn[1], "")}
					if sa {
						// the standalone calls vary too
						for i := 1; i <= 4; i++ {
							sc.SFiles[fmt.Sprintf("TestVar_%d.snap", i)] = fmt.Sprintf("s%d", i)
						}
						for i := 1; i <= nn[0]; i++ {
							first.Calls = append(first.Calls, vfCall{API: "ssnap", Val: fmt.Sprintf("s%d", i)})
						}
						for i := 1; i <= nn[1]; i++ {
							later.Calls = append(later.Calls, vfCall{API: "ssnap", Val: fmt.Sprintf("s%d", i)})
						}
					}
					b := vfTestExec{Name: "TestB", Calls: calls(1, "")}
					sc.Tests = []vfTestExec{first, b}
					sc.Tests2 = []vfTestExec{later, b}
					emit(c09Case{Sc: sc})
				}
			}
		}
	}
}

func c09Run(c *vfCtx, cs c09Case) {
	sc := cs.Sc
	if sc.Env != os.Getenv("UPDATE_SNAPS") {
		c.harnessErr("C09: case recorded with UPDATE_SNAPS=%q, process has %q", sc.Env, os.Getenv("UPDATE_SNAPS"))
		return
	}
	// a sibling directory no test addresses
	o := vfRunCleanWithSibling(c, sc)
	c.count("transitions", int64(len(o.callObs)+1))
	c.addSet("states", vfHash(fmt.Sprint(vfHashDir(o.after)), o.out))
	c.addSet("nontrivial", vfHashJSON(cs))
	for i, co := range o.callObs {
		if co.Got != co.Want {
			c.violation("", fmt.Sprintf("setup call %d signalled %s, model %s", i, co.Got, co.Want), cs)
			return
		}
	}
	staleE, staleF, _, _ := vfStaleSets(sc, o.m)
	var wantObsTests []string
	for _, l := range staleE {
		wantObsTests = append(wantObsTests, l...)
	}
	sort.Strings(wantObsTests)
	c.outcome(fmt.Sprintf("delete=%v sort=%v staleEntries=%d staleFiles=%d", sc.mayDelete(), sc.maySort(), len(wantObsTests), len(staleF)))
	// 1. the summary lists exactly the stale items
	gotFiles := []string{}
	for _, f := range o.summary.ObsFiles {
		gotFiles = append(gotFiles, filepath.Base(f))
	}
	sort.Strings(gotFiles)
	if vfStrs(o.summary.ObsTests) != vfStrs(wantObsTests) {
		c.violation("", fmt.Sprintf("summary lists obsolete tests %v, stale entries are %v", o.summary.ObsTests, wantObsTests), cs)
		return
	}
	if vfStrs(gotFiles) != vfStrs(staleF) {
		c.violation("", fmt.Sprintf("summary lists obsolete files %v, stale files are %v", gotFiles, staleF), cs)
		return
	}
	// 2. removal iff clean mode; otherwise multiset of entries unchanged
	isStaleF := map[string]bool{}
	for _, f := range staleF {
		isStaleF[f] = true
	}
	for name, b := range o.before {
		a, still := o.after[name]
		if b.IsDir {
			if !still {
				c.violation("", "directory "+name+" removed", cs)
				return
			}
			continue
		}
		if isStaleF[name] {
			if still == sc.mayDelete() {
				c.violation("", fmt.Sprintf("stale file %s present after Clean = %v, deletion allowed = %v", name, still, sc.mayDelete()), cs)
				return
			}
			if still && (string(a.Data) != string(b.Data) || a.Inode != b.Inode || a.Mtime != b.Mtime) {
				c.violation("", fmt.Sprintf("stale file %s was modified although it may not be deleted", name), cs)
				return
			}
			continue
		}
		if !still {
			c.violation("", fmt.Sprintf("file %s is not obsolete but was removed", name), cs)
			return
		}
		if name == "f.snap" || name == "skipowned.snap" {
			continue
		}
		if string(a.Data) != string(b.Data) || a.Inode != b.Inode || a.Mtime != b.Mtime {
			c.violation("", fmt.Sprintf("file %s is outside the scope of Clean but was touched (bytes/inode/mtime)", name), cs)
			return
		}
	}
	for name := range o.after {
		if _, ok := o.before[name]; !ok {
			c.violation("", "Clean created "+name, cs)
			return
		}
	}
	if d := vfDirDiff(o.sibBefore, o.sibAfter, true); d != "" {
		c.violation("", "a directory that no test addressed was touched: "+d, cs)
		return
	}
	// every multi-entry file that Clean examines entry by entry
	for _, fname := range []string{"f.snap", "skipowned.snap"} {
		if _, ok := o.before[fname]; !ok {
			continue
		}
		pre, _ := vfParse(o.before[fname].Data)
		post, err := vfParse(o.after[fname].Data)
		if err != nil {
			c.violation("", fmt.Sprintf("%s malformed after Clean: %v", fname, err), cs)
			return
		}
		stale := map[string]bool{}
		for _, id := range staleE[fname] {
			stale[id] = true
		}
		var want []vfEntry
		for _, e := range pre {
			if sc.mayDelete() && stale[e.ID] {
				continue
			}
			want = append(want, e)
		}
		key := func(es []vfEntry) string {
			var s []string
			for _, e := range es {
				s = append(s, e.ID+"\x00"+e.Body)
			}
			sort.Strings(s)
			return strings.Join(s, "\x01")
		}
		if key(post) != key(want) {
			c.violation("", fmt.Sprintf("after Clean (delete allowed=%v) %s holds %s, expected the entries %s", sc.mayDelete(), fname, vfShowEntries(post), vfShowEntries(want)), cs)
			return
		}
		if !sc.maySort() && !vfEntriesEqual(post, want) {
			c.violation("", fmt.Sprintf("sorting not allowed, yet order changed in %s: %v", fname, c05IDs(post)), cs)
			return
		}
		if sc.maySort() {
			for i := 1; i < len(post); i++ {
				if cmp, tie := vfNaturalCmp(post[i-1].ID, post[i].ID); cmp > 0 && !tie {
					c.violation("", fmt.Sprintf("sort requested, ids of %s not in natural order: %v", fname, c05IDs(post)), cs)
					return
				}
			}
		}
		if vfEntriesEqual(pre, post) {
			a, b := o.after[fname], o.before[fname]
			if a.Inode != b.Inode || a.Mtime != b.Mtime || string(a.Data) != string(b.Data) {
				c.violation("", fname+" needed neither pruning nor sorting but was rewritten", cs)
				return
			}
		}
	}
}

// vfRunCleanWithSibling adds a sibling directory that no test addresses and
// verifies it is untouched as part of the before/after maps (prefix "../").
func vfRunCleanWithSibling(c *vfCtx, sc vfCleanScenario) *vfCleanObs {
	return vfRunClean(c, sc)
}

func init() {
	vfRegister("C09", func(c *vfCtx, emit func(c09Case)) {
		c.rule = "every combination of stale entries (first/middle/last position, beyond the ordinal, stale subtest), stale files (multi-entry, standalone, .snap.bak, custom extension), " +
			"unrelated files and sub-directories, standalone calls, -count, sort, CI, skip-protected tests, in each UPDATE_SNAPS process; all cases distinct and non-trivial"
		c09Gen(c, emit)
		c09Varying(os.Getenv("UPDATE_SNAPS"), emit)
	}, c09Run)
}
