//go:build verif

package snaps

import (
	"bytes"
	"fmt"
	"os"
	"path/filepath"
	"regexp"
	"sort"
	"strconv"
	"strings"

	"github.com/gkampitakis/go-snaps/internal/verifhook/sched"
)

// Shared machinery for the Clean properties (C07, C09, C10, C20): a scenario
// is a pre-existing directory (from the model), a test program executed
// -count times on the real code, then Clean(nil, opts) with explicit flags.
// UPDATE_SNAPS is the real environment of this process.

type vfNamedFile struct {
	Name    string    `json:"name"`
	Entries []vfEntry `json:"entries"` // Body = value
}

type vfCleanScenario struct {
	Files    []vfNamedFile     `json:"files,omitempty"`  // pre-existing multi-entry files
	SFiles   map[string]string `json:"sfiles,omitempty"` // pre-existing standalone files
	Other    map[string]string `json:"other,omitempty"`  // other pre-existing files (any name)
	Append   map[string]string `json:"append,omitempty"` // raw text appended to a pre-existing multi-entry file (e.g. an entry whose terminator is missing)
	Dirs     []string          `json:"dirs,omitempty"`   // pre-existing sub-directories (each gets one file inside)
	Tests    []vfTestExec      `json:"tests"`
	Tests2   []vfTestExec      `json:"tests2,omitempty"` // if set: what the 2nd, 3rd ... execution does instead (data-dependent call counts)
	Skips    []string          `json:"skips,omitempty"`  // tests that call snaps.Skip first and make no call
	Count    int               `json:"count"`
	CI       bool              `json:"ci,omitempty"`
	Sort     bool              `json:"sort,omitempty"`
	Run      string            `json:"run,omitempty"`
	Env      string            `json:"env"`
	Clean2   bool              `json:"clean2,omitempty"`   // run Clean a second time (idempotence)
	DirName  string            `json:"dirname,omitempty"`  // name of the snapshot directory ("" = snaps)
	DirSpell string            `json:"dirspell,omitempty"` // how the absolute Dir option is spelled: "" | slash | dot | dotdot | double
	CRLF     bool              `json:"crlf,omitempty"`     // the pre-existing multi-entry files have CR LF line ends (ignored when a value or body holds a CR of its own)
}

// crlf: whether the scenario's files really are written with CR LF line ends.
func (sc vfCleanScenario) crlf() bool {
	if !sc.CRLF {
		return false
	}
	for _, f := range sc.Files {
		for _, e := range f.Entries {
			if strings.Contains(e.Body, "\r") {
				return false
			}
		}
	}
	for _, v := range sc.Append {
		if strings.Contains(v, "\r") {
			return false
		}
	}
	for _, ts := range [][]vfTestExec{sc.Tests, sc.Tests2} {
		for _, t := range ts {
			for _, cl := range t.Calls {
				if strings.Contains(cl.Val, "\r") {
					return false
				}
			}
		}
	}
	return true
}

type vfCleanObs struct {
	dir           string
	m             *vfModel
	callObs       []vfCallObs
	before, after vfDirObs
	ops           []sched.Op
	out           string
	summary       vfSummary
	after2        vfDirObs
	ops2          []sched.Op
	out2          string
	before2       vfDirObs
	sibBefore     vfDirObs
	sibAfter      vfDirObs
}

var vfIDRe = regexp.MustCompile(`^(.*) - (\d+)$`)

func vfSplitID(id string) (name string, k int, ok bool) {
	mm := vfIDRe.FindStringSubmatch(id)
	if mm == nil {
		return "", 0, false
	}
	k, _ = strconv.Atoi(mm[2])
	return mm[1], k, true
}

func (sc vfCleanScenario) mayDelete() bool { return !sc.CI && (sc.Env == "true" || sc.Env == "clean") }
func (sc vfCleanScenario) maySort() bool   { return !sc.CI && sc.Sort }

// vfRunClean executes the scenario on the real code.
func vfRunClean(c *vfCtx, sc vfCleanScenario) *vfCleanObs {
	root := c.newWorld()
	dn := sc.DirName
	if dn == "" {
		dn = "snaps"
	}
	dir := filepath.Join(root, dn)
	sib := filepath.Join(root, "sibling.snap.d")
	if dn == "pkg[1]" {
		sib = filepath.Join(root, "pkg1") // the directory a glob reading of the name would match
	}
	os.MkdirAll(dir, 0o755)
	os.MkdirAll(sib, 0o755)
	// a sibling directory that no test addresses
	os.WriteFile(filepath.Join(sib, "g.snap"), vfRender([]vfEntry{{ID: "TestSib - 1", Body: "s"}}), 0o644)
	os.WriteFile(filepath.Join(sib, "TestSib_1.snap"), []byte("raw"), 0o644)
	vfResetState(sc.CI, sc.Env, true)
	m := vfNewModel(sc.CI, sc.Env)
	for _, f := range sc.Files {
		m.files[f.Name] = nil
		for _, e := range f.Entries {
			m.preload(f.Name, e.ID, e.Body)
		}
	}
	for n, v := range sc.SFiles {
		m.sfiles[n] = v
	}
	vfWriteModelFiles(dir, m)
	for n, v := range sc.Other {
		if strings.HasPrefix(n, "../") {
			// a file NEXT TO the snapshot directory (e.g. a Go source file named after a snapshot file)
			os.WriteFile(filepath.Join(root, strings.TrimPrefix(n, "../")), []byte(v), 0o644)
			continue
		}
		os.WriteFile(filepath.Join(dir, n), []byte(v), 0o644)
	}
	for n, v := range sc.Append {
		f, err := os.OpenFile(filepath.Join(dir, n), os.O_APPEND|os.O_WRONLY, 0o644)
		if err != nil {
			panic(err)
		}
		f.WriteString(v)
		f.Close()
	}
	vfParseDropCR = sc.crlf() // (read by the checks that parse the observed files afterwards; set anew by every scenario)
	if sc.crlf() {
		for _, f := range sc.Files {
			p := filepath.Join(dir, f.Name)
			if b, err := os.ReadFile(p); err == nil {
				os.WriteFile(p, bytes.ReplaceAll(b, []byte("\n"), []byte("\r\n")), 0o644)
			}
		}
	}
	for _, d := range sc.Dirs {
		os.MkdirAll(filepath.Join(dir, d), 0o755)
		os.WriteFile(filepath.Join(dir, d, "inner.snap"), vfRender([]vfEntry{{ID: "TestInner - 1", Body: "x"}}), 0o644)
	}
	o := &vfCleanObs{dir: dir, m: m}
	cnt := sc.Count
	if cnt < 1 {
		cnt = 1
	}
	for e := 0; e < cnt; e++ {
		for _, s := range sc.Skips {
			t := &vfT{name: s}
			Skip(t, "skipped")
			t.end()
			m.skips++
		}
		tests := sc.Tests
		if e > 0 && sc.Tests2 != nil {
			tests = sc.Tests2
		}
		o.callObs = append(o.callObs, vfRunTests(vfSpellDir(dir, sc.DirSpell), m, tests)...)
	}
	vfPlantSentinel(root)
	o.before = vfSnapDir(dir)
	o.sibBefore = vfSnapDir(sib)
	o.ops = vfLogged(func() { o.out = vfClean(sc.Run, cnt, sc.Sort) })
	o.after = vfSnapDir(dir)
	o.sibAfter = vfSnapDir(sib)
	o.summary = vfParseSummary(o.out)
	if sc.Clean2 {
		vfPlantSentinel(dir)
		o.before2 = vfSnapDir(dir)
		o.ops2 = vfLogged(func() { o.out2 = vfClean(sc.Run, cnt, sc.Sort) })
		o.after2 = vfSnapDir(dir)
	}
	return o
}

func vfSkipProtected(name string, skips []string) bool {
	for _, s := range skips {
		if name == s || strings.HasPrefix(name, s+"/") {
			return true
		}
	}
	return false
}

// vfStaleSets: the model's obsolete entries and files (Run == "" only).
func vfStaleSets(sc vfCleanScenario, m *vfModel) (staleEntries map[string][]string, staleFiles []string, addressedEntries map[string][]string, addressedFiles []string) {
	staleEntries = map[string][]string{}
	addressedEntries = map[string][]string{}
	usedFile := map[string]bool{}
	for key := range m.addressed {
		usedFile[key[:strings.Index(key, "\x00")]] = true
	}
	for f := range usedFile {
		addressedFiles = append(addressedFiles, f)
		for _, e := range m.files[f] {
			name, k, ok := vfSplitID(e.ID)
			if ok && m.addressed[f+"\x00"+name][k] && e.ID == fmt.Sprintf("%s - %d", name, k) {
				addressedEntries[f] = append(addressedEntries[f], e.ID)
				continue
			}
			if ok && vfSkipProtected(name, sc.Skips) {
				continue
			}
			staleEntries[f] = append(staleEntries[f], e.ID)
		}
	}
	sa := map[string]bool{}
	for g, ks := range m.saddr {
		for k := range ks {
			n := vfStandaloneName(g, k)
			sa[n] = true
			addressedFiles = append(addressedFiles, n)
		}
	}
	if len(usedFile) == 0 && len(sa) == 0 {
		return // no directory is visited at all
	}
	var all []string
	for f := range m.files {
		all = append(all, f)
	}
	for f := range m.sfiles {
		all = append(all, f)
	}
	for f := range sc.Other {
		all = append(all, f)
	}
	for _, f := range all {
		if !strings.Contains(f, ".snap") || usedFile[f] || sa[f] {
			continue
		}
		// a file that belongs to a skip-protected test is not obsolete: a standalone file named after it,
		// or a multi-entry file holding one of its entries (then only the OTHER entries of that file can be stale)
		if vfStandaloneOfSkipped(f, sc.Skips) {
			continue
		}
		if es, ok := m.files[f]; ok {
			prot := false
			for _, e := range es {
				if name, _, ok := vfSplitID(e.ID); ok && vfSkipProtected(name, sc.Skips) {
					prot = true
				}
			}
			if prot {
				for _, e := range es {
					if name, _, ok := vfSplitID(e.ID); ok && !vfSkipProtected(name, sc.Skips) {
						staleEntries[f] = append(staleEntries[f], e.ID)
					}
				}
				continue
			}
		}
		staleFiles = append(staleFiles, f)
	}
	sort.Strings(staleFiles)
	sort.Strings(addressedFiles)
	return
}

// vfNaturalLess is the reference natural order: digit runs compare as
// numbers, everything else bytewise. tie reports ids that differ only in the
// width of a number (they may appear in either order).
func vfNaturalCmp(a, b string) (cmp int, tie bool) {
	i, j := 0, 0
	for i < len(a) && j < len(b) {
		da, db := a[i] >= '0' && a[i] <= '9', b[j] >= '0' && b[j] <= '9'
		if da && db {
			si, sj := i, j
			for i < len(a) && a[i] >= '0' && a[i] <= '9' {
				i++
			}
			for j < len(b) && b[j] >= '0' && b[j] <= '9' {
				j++
			}
			na := strings.TrimLeft(a[si:i], "0")
			nb := strings.TrimLeft(b[sj:j], "0")
			if len(na) != len(nb) {
				if len(na) < len(nb) {
					return -1, false
				}
				return 1, false
			}
			if na != nb {
				if na < nb {
					return -1, false
				}
				return 1, false
			}
			if i-si != j-sj {
				tie = true
			}
			continue
		}
		if a[i] != b[j] {
			if a[i] < b[j] {
				return -1, tie
			}
			return 1, tie
		}
		i++
		j++
	}
	switch {
	case len(a)-i < len(b)-j:
		return -1, tie
	case len(a)-i > len(b)-j:
		return 1, tie
	}
	return 0, tie
}

// vfSpellDir returns a non-canonical spelling of the same absolute directory.
func vfSpellDir(dir, how string) string {
	switch how {
	case "slash":
		return dir + "/"
	case "dot":
		return filepath.Dir(dir) + "/./" + filepath.Base(dir)
	case "dotdot":
		return dir + "/../" + filepath.Base(dir)
	case "double":
		return filepath.Dir(dir) + "//" + filepath.Base(dir)
	}
	return dir
}

var vfStandaloneRe = regexp.MustCompile(`^(.*)_\d+\.snap(\..*)?$`)

// vfStandaloneOfSkipped: is f the standalone file <name with / as _>_<n>.snap<ext> of a skipped test or of one of its subtests?
func vfStandaloneOfSkipped(f string, skips []string) bool {
	mm := vfStandaloneRe.FindStringSubmatch(f)
	if mm == nil {
		return false
	}
	for _, s := range skips {
		p := strings.ReplaceAll(s, "/", "_")
		if mm[1] == p || strings.HasPrefix(mm[1], p+"_") {
			return true
		}
	}
	return false
}
