//go:build verif

// Verification drivers injected into package snaps at check time (overlay);
// see /verif/DESIGN.md §4. Everything here is prefixed vf to stay clear of the
// package's own identifiers. Only package-level identifiers pinned by the
// repository's own tests are touched (isCI, updateVAR, the registries and
// their constructors, testEvents, skippedTests, colors.NOCOLOR).
package snaps

import (
	"bytes"
	"encoding/base64"
	"encoding/binary"
	"encoding/json"
	"flag"
	"fmt"
	"hash/fnv"
	"io"
	"os"
	"path/filepath"
	"reflect"
	"runtime"
	"sort"
	"strconv"
	"strings"
	"syscall"
	"testing"
	"time"
	"unicode/utf8"

	"github.com/gkampitakis/go-snaps/internal/colors"
	"github.com/gkampitakis/go-snaps/internal/verifhook/sched"
	"github.com/gkampitakis/go-snaps/match"
)

// ---------------------------------------------------------------------------
// driver registry and context

type vfViolation struct {
	Class string          `json:"class"`
	Msg   string          `json:"msg"`
	Case  json.RawMessage `json:"case"`
	Mode  string          `json:"mode,omitempty"` // "disturb": found with interposed unrelated calls; the replay needs them too
}

type vfCtx struct {
	prop, tier, mode string
	shard, nshards   int
	scratch          string
	deadline         time.Time
	seed             int64

	counters    map[string]int64
	sets        map[string]map[uint64]struct{}
	outcomes    map[string]int64
	samples     []json.RawMessage
	lastSample  any
	violations  []vfViolation
	violCounts  map[string]int64
	perClass    map[string]int
	capsHit     map[string]bool
	bounds      map[string]any
	rule        string
	assumptions []string
	notes       []string
	harnessErrs []string
	tick        int // deadline polling counter (stoppedNow)
	extra       map[string]any
	exhaustive  bool
	idx         int64
	stopped     bool
	worldN      int
	debug       bool
	curCase     any
}

func (c *vfCtx) thorough() bool { return c.tier == "thorough" }

// mine deals enumeration index i to shards round-robin and enforces the
// internal deadline (a deadline ends exploration with exhaustive:false).
func (c *vfCtx) mine() bool {
	i := c.idx
	c.idx++
	if c.stopped {
		return false
	}
	if i%64 == 0 && !c.deadline.IsZero() && time.Now().After(c.deadline) {
		c.stopped = true
		c.capsHit["deadline"] = true
		c.exhaustive = false
		return false
	}
	return int(i%int64(c.nshards)) == c.shard
}

func (c *vfCtx) count(name string, n int64) { c.counters[name] += n }

func (c *vfCtx) addSet(name string, h uint64) {
	s := c.sets[name]
	if s == nil {
		s = map[uint64]struct{}{}
		c.sets[name] = s
	}
	s[h] = struct{}{}
}

func (c *vfCtx) outcome(label string) { c.outcomes[label]++ }

func (c *vfCtx) sample(v any) {
	if len(c.samples) < 3 {
		b, _ := json.Marshal(v)
		c.samples = append(c.samples, b)
		return
	}
	c.lastSample = v
}

func (c *vfCtx) bound(k string, v any) { c.bounds[k] = v }
func (c *vfCtx) assume(s string)       { c.assumptions = append(c.assumptions, s) }
func (c *vfCtx) note(s string)         { c.notes = append(c.notes, s) }
func (c *vfCtx) cap(name string)       { c.capsHit[name] = true; c.exhaustive = false }

// violation records a failed oracle. class is the name of a harness predicate
// over the *inputs* of the case ("" = unclassified); the case is what a replay
// needs.
func (c *vfCtx) violation(class, msg string, cs any) {
	c.violCounts[class]++
	if c.perClass[class] >= 3 {
		return
	}
	c.perClass[class]++
	if cs == nil {
		cs = c.curCase
	}
	b, err := json.Marshal(cs)
	if err != nil {
		b, _ = json.Marshal(fmt.Sprintf("%#v", cs))
	}
	mode := ""
	if c.mode == "disturb" {
		mode = "disturb"
	}
	c.violations = append(c.violations, vfViolation{Class: class, Msg: msg, Case: b, Mode: mode})
	if c.debug {
		fmt.Printf("VIOL class=%q %s\n  case=%s\n", class, msg, b)
	}
}

func (c *vfCtx) harnessErr(f string, a ...any) {
	if len(c.harnessErrs) < 20 {
		c.harnessErrs = append(c.harnessErrs, fmt.Sprintf(f, a...))
	}
}

type vfDriver struct {
	run    func(c *vfCtx)
	replay func(c *vfCtx, raw json.RawMessage)
	race   func(c *vfCtx)
}

var vfDrivers = map[string]*vfDriver{}

// vfRegister registers a case-enumerating driver: gen emits every case of the
// bounded space (for all shards; emit filters), run checks one case.
func vfRegister[C any](prop string, gen func(c *vfCtx, emit func(C)), run func(c *vfCtx, cs C)) {
	d := vfDrivers[prop]
	if d == nil {
		d = &vfDriver{}
		vfDrivers[prop] = d
	}
	prevRun := d.run
	prevReplay := d.replay
	d.run = func(c *vfCtx) {
		if prevRun != nil {
			prevRun(c)
		}
		gen(c, func(cs C) {
			if !c.mine() {
				return
			}
			if c.stoppedNow() {
				return // internal deadline: the run ends with exhaustive=false (and exit 0) instead of being killed
			}
			if vfDisturb.on && vfDisturb.thin > 1 {
				// the pass with interposed calls covers a fixed fraction of the largest enumerations in the quick tier
				vfDisturb.seq++
				if vfDisturb.seq%vfDisturb.thin != 0 {
					return
				}
			}
			c.curCase = cs
			vfDisturbCase(cs)
			c.count("evaluations", 1)
			c.count("traces", 1)
			func() {
				defer func() {
					if r := recover(); r != nil {
						b, _ := json.Marshal(cs)
						c.harnessErr("panic while running case %s: %v", b, r)
					}
				}()
				run(c, cs)
			}()
			c.sample(cs)
		})
	}
	d.replay = func(c *vfCtx, raw json.RawMessage) {
		var cs C
		dec := json.NewDecoder(bytes.NewReader(raw))
		dec.DisallowUnknownFields()
		if err := dec.Decode(&cs); err != nil {
			if prevReplay != nil {
				prevReplay(c, raw)
				return
			}
			c.harnessErr("replay: cannot decode case: %v", err)
			return
		}
		c.curCase = cs
		vfDisturbCase(cs)
		c.count("evaluations", 1)
		c.count("traces", 1)
		run(c, cs)
		c.sample(cs)
	}
}

func TestVerifDriver(t *testing.T) {
	prop := os.Getenv("VERIF_PROP")
	if prop == "" {
		t.Skip("VERIF_PROP not set")
	}
	c := &vfCtx{prop: prop, tier: os.Getenv("VERIF_TIER"), mode: os.Getenv("VERIF_MODE"), nshards: 1,
		scratch:  os.Getenv("VERIF_SCRATCH"),
		counters: map[string]int64{}, sets: map[string]map[uint64]struct{}{}, outcomes: map[string]int64{},
		violCounts: map[string]int64{}, perClass: map[string]int{}, capsHit: map[string]bool{}, bounds: map[string]any{},
		extra: map[string]any{}, exhaustive: true, debug: os.Getenv("VERIF_DEBUG") != ""}
	if s := os.Getenv("VERIF_SHARD"); s != "" {
		fmt.Sscanf(s, "%d/%d", &c.shard, &c.nshards)
	}
	if s := os.Getenv("VERIF_DEADLINE"); s != "" {
		n, _ := strconv.ParseInt(s, 10, 64)
		c.deadline = time.Unix(n, 0)
	}
	c.seed, _ = strconv.ParseInt(os.Getenv("VERIF_SEED"), 10, 64)
	if c.scratch == "" {
		c.scratch = t.TempDir()
	}
	out := os.Getenv("VERIF_OUT")
	d := vfDrivers[prop]
	if d == nil {
		t.Fatalf("no driver for %s", prop)
	}
	complete := false
	func() {
		defer func() {
			if r := recover(); r != nil {
				c.harnessErr("driver panic: %v", r)
				panic(r)
			}
		}()
		if c.mode == "disturb" {
			vfDisturb.on = true
			vfDisturb.dir = filepath.Join(c.scratch, "disturb")
			os.MkdirAll(vfDisturb.dir, 0o755)
			defer func() { c.count("interposed_unrelated_calls", vfDisturb.calls) }()
			vfDisturb.thin, _ = strconv.ParseUint(os.Getenv("VERIF_DISTURB_THIN"), 10, 64)
			if vfDisturb.thin > 1 {
				c.bound("interposed_pass_covers", fmt.Sprintf("every %dth case of the enumeration", vfDisturb.thin))
			} else {
				c.bound("interposed_pass_covers", "every case of the enumeration")
			}
		}
		vfQuietStdout(func() {
			switch {
			case os.Getenv("VERIF_REPLAY") != "":
				b, err := os.ReadFile(os.Getenv("VERIF_REPLAY"))
				if err != nil {
					c.harnessErr("replay file: %v", err)
					return
				}
				var rf struct {
					Case json.RawMessage `json:"case"`
				}
				if err := json.Unmarshal(b, &rf); err != nil || rf.Case == nil {
					c.harnessErr("replay file has no case: %v", err)
					return
				}
				c.debug = true
				d.replay(c, rf.Case)
			case c.mode == "race":
				if d.race != nil {
					d.race(c)
				}
			default:
				d.run(c)
			}
		})
		complete = true
	}()
	c.write(out, complete)
}

func (c *vfCtx) write(out string, complete bool) {
	if c.lastSample != nil {
		b, _ := json.Marshal(c.lastSample)
		c.samples = append(c.samples, b)
	}
	sets := map[string]string{}
	for name, s := range c.sets {
		p := fmt.Sprintf("%s.set.%s", out, name)
		buf := make([]byte, 0, 8*len(s))
		for h := range s {
			buf = binary.LittleEndian.AppendUint64(buf, h)
		}
		os.WriteFile(p, buf, 0o644)
		sets[name] = p
	}
	caps := []string{}
	for k := range c.capsHit {
		caps = append(caps, k)
	}
	sort.Strings(caps)
	res := map[string]any{
		"prop": c.prop, "tier": c.tier, "shard": c.shard, "nshards": c.nshards, "complete": complete,
		"counters": c.counters, "sets": sets, "outcomes": c.outcomes, "samples": c.samples,
		"violations": c.violations, "viol_counts": c.violCounts, "caps_hit": caps, "exhaustive": c.exhaustive,
		"bounds": c.bounds, "rule": c.rule, "assumptions": c.assumptions, "notes": c.notes,
		"harness_errors": c.harnessErrs, "extra": c.extra,
	}
	b, err := json.Marshal(res)
	if err != nil {
		b, _ = json.Marshal(map[string]any{"prop": c.prop, "complete": false, "harness_errors": []string{"marshal: " + err.Error()}})
	}
	if out == "" {
		fmt.Println(string(b))
		return
	}
	os.WriteFile(out, b, 0o644)
}

// vfQuietStdout runs f with os.Stdout redirected to /dev/null unless debugging
// (Clean prints summaries; we capture those separately where needed).
func vfQuietStdout(f func()) { f() }

// ---------------------------------------------------------------------------
// mock testingT

type vfT struct {
	disturber bool // this mock belongs to the interposed disturbance calls
	name      string
	errs      []string
	logs      []string
	cleanups  []func()
	skips     []string
}

// Helper is the first thing every exported Match* entry point calls: in disturbance mode (DESIGN §12.10) this is
// where calls of ANOTHER test, through another Config into another directory, are interposed. A library that keeps
// state between calls (scratch buffers, encoders, caches hoisted to package scope) then behaves differently.
func (m *vfT) Helper() {
	if !vfDisturb.on || vfDisturb.busy || m.disturber {
		return
	}
	pc, _, _, ok := runtime.Caller(1)
	if !ok {
		return
	}
	fn := runtime.FuncForPC(pc).Name()
	switch fn[strings.LastIndex(fn, ".")+1:] {
	case "MatchSnapshot", "MatchJSON", "MatchYAML", "MatchStandaloneSnapshot", "MatchStandaloneJSON":
	default:
		return
	}
	vfDisturb.busy = true
	defer func() { vfDisturb.busy = false }()
	vfDisturbCalls()
}

var vfDisturb struct {
	on, busy bool
	dir      string
	n, seq   uint64
	thin     uint64
	calls    int64
}

// vfDisturbMenu: unrelated calls, failing ones included; two of them are made per trigger, rotating.
var vfDisturbMenu = []func(cfg *Config, t *vfT, n uint64){
	func(cfg *Config, t *vfT, n uint64) { cfg.MatchSnapshot(t, "d\n---\n[TestA - 1]\nx\n\n[TestA - 2]") },
	func(cfg *Config, t *vfT, n uint64) {
		cfg.MatchJSON(t, `{"z":[1,{"y":null}],"created":"now"}`, match.Any("z.0", "created"))
	},
	func(cfg *Config, t *vfT, n uint64) { cfg.MatchJSON(t, `{"a":`) },
	func(cfg *Config, t *vfT, n uint64) {
		cfg.MatchYAML(t, struct {
			H []any `yaml:"h"`
		}{[]any{"ok", make(chan int)}})
	},
	func(cfg *Config, t *vfT, n uint64) { cfg.MatchYAML(t, "k: [1, 2]\nm:\n  - a\n", match.Any("$.k[0]")) },
	func(cfg *Config, t *vfT, n uint64) {
		cfg.MatchStandaloneSnapshot(t, strings.Repeat("disturbance line 0123456789\n", 200))
	},
	func(cfg *Config, t *vfT, n uint64) { cfg.MatchStandaloneJSON(t, []byte(` [ 1 , {"b":2,"a":[]} ] `)) },
	func(cfg *Config, t *vfT, n uint64) {
		WithConfig(Dir(vfDisturb.dir), Filename("d"), Update(true)).MatchSnapshot(t, fmt.Sprintf("changed %d\n%s", n, strings.Repeat("x", int(n%3)*3000)))
	},
	func(cfg *Config, t *vfT, n uint64) {
		cfg.MatchJSON(t, map[string]any{"b": []int{1, 2}, "a": "x"}, match.Type[string]("b"))
	},
	func(cfg *Config, t *vfT, n uint64) {
		cfg.MatchYAML(t, map[string]any{"l": []any{1, []any{2, 3}}, "k": "v"})
	},
}

func vfDisturbCalls() {
	t := &vfT{name: "TestDisturb", disturber: true}
	cfg := WithConfig(Dir(vfDisturb.dir), Filename("d"))
	for i := 0; i < 2; i++ {
		vfDisturbMenu[vfDisturb.n%uint64(len(vfDisturbMenu))](cfg, t, vfDisturb.n)
		vfDisturb.n++
		vfDisturb.calls++
	}
	t.end()
}

// vfDisturbCase makes the rotation a function of the case alone (so that a replay interposes the same calls).
func vfDisturbCase(cs any) {
	if vfDisturb.on {
		vfDisturb.n = vfHashJSON(cs) % 1000
	}
}
func (m *vfT) Skip(a ...any) {
	m.skips = append(m.skips, "Skip:"+fmt.Sprint(a...))
}
func (m *vfT) Skipf(f string, a ...any) { m.skips = append(m.skips, "Skipf:"+fmt.Sprintf(f, a...)) }
func (m *vfT) SkipNow()                 { m.skips = append(m.skips, "SkipNow") }
func (m *vfT) Name() string             { return m.name }
func (m *vfT) Error(a ...any)           { m.errs = append(m.errs, fmt.Sprint(a...)) }
func (m *vfT) Log(a ...any)             { m.logs = append(m.logs, fmt.Sprint(a...)) }
func (m *vfT) Cleanup(f func())         { m.cleanups = append(m.cleanups, f) }

// end runs the registered cleanups last-in-first-out, as testing does when
// the test execution finishes.
func (m *vfT) end() {
	// as testing.(*common).runCleanup: pop the last one until none is left, so a
	// function registered by a cleanup (a Match* call made there) runs as well
	for len(m.cleanups) > 0 {
		last := len(m.cleanups) - 1
		f := m.cleanups[last]
		m.cleanups = m.cleanups[:last]
		f()
	}
}

// mark / since give the observation of a single call.
type vfMark struct{ e, l int }

func (m *vfT) mark() vfMark { return vfMark{len(m.errs), len(m.logs)} }

// outcome classifies what one call signalled to the test since mark:
// pass | added | updated | failed | weird(...)
func (m *vfT) outcome(k vfMark) string {
	ne, nl := len(m.errs)-k.e, len(m.logs)-k.l
	switch {
	case ne == 0 && nl == 0:
		return "pass"
	case ne == 1 && nl == 0:
		return "failed"
	case ne == 0 && nl == 1 && strings.Contains(m.logs[k.l], "added"):
		return "added"
	case ne == 0 && nl == 1 && strings.Contains(m.logs[k.l], "updated"):
		return "updated"
	}
	return fmt.Sprintf("weird(errors=%d,logs=%d:%q)", ne, nl, m.logs[k.l:])
}

// ---------------------------------------------------------------------------
// world reset (DESIGN §4, reset protocol)

func vfResetState(ci bool, updateVar string, nocolor bool) {
	testsRegistry = newRegistry()
	standaloneTestsRegistry = newStandaloneRegistry()
	testEvents = newTestEvents()
	skippedTests = newSyncSlice()
	isCI = ci
	updateVAR = updateVar
	colors.NOCOLOR = nocolor
}

// newWorld gives an empty snapshot directory.
func (c *vfCtx) newWorld() string {
	c.worldN++
	d := filepath.Join(c.scratch, "w")
	os.RemoveAll(d)
	if err := os.MkdirAll(d, 0o755); err != nil {
		panic(err)
	}
	return d
}

// ---------------------------------------------------------------------------
// reference model of the file format (documented format; never reads go-snaps code)

type vfEntry struct {
	ID   string `json:"id"`
	Body string `json:"body"`
}

func vfEscape(s string) string {
	ls := strings.Split(s, "\n")
	for i, l := range ls {
		if l == "---" {
			ls[i] = "/-/-/-/"
		}
	}
	return strings.Join(ls, "\n")
}

func vfRender(es []vfEntry) []byte {
	var b bytes.Buffer
	for _, e := range es {
		fmt.Fprintf(&b, "\n[%s]\n%s\n---\n", e.ID, e.Body)
	}
	return b.Bytes()
}

// vfParse is the tolerant structural reader: blank lines between entries are
// ignored; an entry is a header line "[id]", body lines, and the first
// following line equal to "---". Body lines are never inspected for headers.
func vfParse(data []byte) ([]vfEntry, error) {
	var out []vfEntry
	if len(data) == 0 {
		return out, nil
	}
	s := string(data)
	if vfParseDropCR {
		s = strings.ReplaceAll(s, "\r\n", "\n")
	}
	hadNL := strings.HasSuffix(s, "\n")
	lines := strings.Split(s, "\n")
	if hadNL {
		lines = lines[:len(lines)-1]
	}
	i := 0
	for i < len(lines) {
		l := lines[i]
		if l == "" {
			i++
			continue
		}
		if !strings.HasPrefix(l, "[") || !strings.HasSuffix(l, "]") {
			return out, fmt.Errorf("line %d: expected entry header, found %q", i+1, vfClip(l))
		}
		id := l[1 : len(l)-1]
		i++
		var body []string
		closed := false
		for i < len(lines) {
			if lines[i] == "---" {
				closed = true
				i++
				break
			}
			body = append(body, lines[i])
			i++
		}
		if !closed {
			return out, fmt.Errorf("entry %q is not terminated", id)
		}
		out = append(out, vfEntry{ID: id, Body: strings.Join(body, "\n")})
	}
	if !hadNL && !vfParseNoFinalNL {
		return out, fmt.Errorf("file does not end with a newline")
	}
	return out, nil
}

// vfParseNoFinalNL: set by cases whose pre-existing file deliberately lacks the final newline (an editor trimmed it)
var vfParseNoFinalNL bool

// vfParseDropCR: set by cases whose pre-existing file has CR LF line ends (checked out that way); a CR before a LF is not content
var vfParseDropCR bool

func vfClip(s string) string {
	if len(s) > 80 {
		return s[:40] + fmt.Sprintf("…(%d bytes)…", len(s)) + s[len(s)-20:]
	}
	return s
}

func vfEntriesEqual(a, b []vfEntry) bool {
	if len(a) != len(b) {
		return false
	}
	for i := range a {
		if a[i] != b[i] {
			return false
		}
	}
	return true
}

func vfShowEntries(es []vfEntry) string {
	var s []string
	for _, e := range es {
		s = append(s, fmt.Sprintf("[%s]=%q", e.ID, vfClip(e.Body)))
	}
	return "{" + strings.Join(s, ", ") + "}"
}

// ---------------------------------------------------------------------------
// directory observation

type vfFileObs struct {
	Data  []byte
	Inode uint64
	Mtime int64
	IsDir bool
}

type vfDirObs map[string]vfFileObs

// vfSentinel is the mtime planted on every file before an observed run.
var vfSentinel = time.Date(2001, 2, 3, 4, 5, 6, 0, time.UTC)

func vfSnapDir(root string) vfDirObs {
	out := vfDirObs{}
	filepath.Walk(root, func(p string, info os.FileInfo, err error) error {
		if err != nil || p == root {
			return nil
		}
		rel, _ := filepath.Rel(root, p)
		o := vfFileObs{IsDir: info.IsDir(), Mtime: info.ModTime().UnixNano()}
		if st, ok := info.Sys().(*syscall.Stat_t); ok {
			o.Inode = st.Ino
		}
		if !info.IsDir() {
			o.Data, _ = os.ReadFile(p)
		}
		out[rel] = o
		return nil
	})
	return out
}

func vfPlantSentinel(root string) {
	filepath.Walk(root, func(p string, info os.FileInfo, err error) error {
		if err == nil && !info.IsDir() {
			os.Chtimes(p, vfSentinel, vfSentinel)
		}
		return nil
	})
}

// vfDirDiff describes how b differs from a ("" = identical bytes, names,
// inodes and file mtimes).
func vfDirDiff(a, b vfDirObs, withMeta bool) string {
	var d []string
	for k, x := range a {
		y, ok := b[k]
		if !ok {
			d = append(d, "removed "+k)
			continue
		}
		if !bytes.Equal(x.Data, y.Data) {
			d = append(d, fmt.Sprintf("changed %s: %q -> %q", k, vfClip(string(x.Data)), vfClip(string(y.Data))))
			continue
		}
		if withMeta && !x.IsDir {
			if x.Inode != y.Inode {
				d = append(d, "replaced (new inode) "+k)
			} else if x.Mtime != y.Mtime {
				d = append(d, "rewritten with same bytes (mtime moved) "+k)
			}
		}
	}
	for k := range b {
		if _, ok := a[k]; !ok {
			d = append(d, "created "+k)
		}
	}
	sort.Strings(d)
	return strings.Join(d, "; ")
}

func vfHashDir(o vfDirObs) uint64 {
	ks := make([]string, 0, len(o))
	for k := range o {
		ks = append(ks, k)
	}
	sort.Strings(ks)
	h := fnv.New64a()
	for _, k := range ks {
		h.Write([]byte(k))
		h.Write([]byte{0})
		h.Write(o[k].Data)
		h.Write([]byte{1})
	}
	return h.Sum64()
}

func vfHash(parts ...string) uint64 {
	h := fnv.New64a()
	for _, p := range parts {
		h.Write([]byte(p))
		h.Write([]byte{0})
	}
	return h.Sum64()
}

func vfHashJSON(v any) uint64 {
	b, _ := json.Marshal(v)
	h := fnv.New64a()
	h.Write(b)
	return h.Sum64()
}

// vfMemKey hashes the shared in-memory state of package snaps (registries,
// counters, skip list) by reflection over the whole objects, so that state a
// changed /repo adds to them is part of the key as well.
func vfMemKey() uint64 {
	return vfHash(vfDump(reflect.ValueOf(testsRegistry)), vfDump(reflect.ValueOf(standaloneTestsRegistry)),
		vfDump(reflect.ValueOf(testEvents)), vfDump(reflect.ValueOf(skippedTests)))
}

// vfWorldKey is canon(world) of DESIGN §5.1.
func vfWorldKey(root string) uint64 {
	return vfHash(fmt.Sprint(vfHashDir(vfSnapDir(root))), fmt.Sprint(vfMemKey()))
}

// ---------------------------------------------------------------------------
// fs-operation log helpers (passive shim)

func vfLogged(f func()) []sched.Op {
	sched.StartLog()
	f()
	return sched.StopLog()
}

// vfMutOps: the mutating operations of a log (those of the interposed disturbance calls, which
// go to their own directory, are not the observed call's).
func vfMutOps(ops []sched.Op) []sched.Op {
	var out []sched.Op
	for _, o := range sched.Mutations(ops) {
		if vfDisturb.on && strings.HasPrefix(o.Res, vfDisturb.dir) {
			continue
		}
		out = append(out, o)
	}
	return out
}

func vfUnmarshalStrict(b []byte, v any) error {
	dec := json.NewDecoder(bytes.NewReader(b))
	dec.DisallowUnknownFields()
	return dec.Decode(v)
}

func vfShowOps(ops []sched.Op) string {
	var s []string
	for _, o := range ops {
		s = append(s, o.Kind+"("+filepath.Base(o.Res)+")")
	}
	return strings.Join(s, ",")
}

// ---------------------------------------------------------------------------
// calls

// vfCall is one Match* call in JSON-serialisable form.
type vfCall struct {
	API  string `json:"api"`            // snap | json | yaml | ssnap | sjson
	Val  string `json:"val"`            // the value (text)
	Form string `json:"form,omitempty"` // "" = string, "bytes" = []byte
	Upd  string `json:"upd,omitempty"`  // "" | "true" | "false" : Update option
	File string `json:"file,omitempty"` // Filename option ("" = "f")
}

// vfEnc / vfDec make arbitrary bytes survive JSON (invalid UTF-8 would be
// replaced by U+FFFD and a replay would run a different case).
func vfEnc(s string) string {
	if utf8.ValidString(s) && !strings.HasPrefix(s, "b64:") {
		return s
	}
	return "b64:" + base64.StdEncoding.EncodeToString([]byte(s))
}

func vfDec(s string) string {
	if strings.HasPrefix(s, "b64:") {
		if b, err := base64.StdEncoding.DecodeString(s[4:]); err == nil {
			return string(b)
		}
	}
	return s
}

func vfQ(l []string) []string {
	var o []string
	for _, s := range l {
		o = append(o, strconv.Quote(s))
	}
	return o
}

type vfCallJ vfCall

func (cl vfCall) MarshalJSON() ([]byte, error) {
	j := vfCallJ(cl)
	j.Val = vfEnc(j.Val)
	return json.Marshal(j)
}

func (cl *vfCall) UnmarshalJSON(b []byte) error {
	var j vfCallJ
	if err := json.Unmarshal(b, &j); err != nil {
		return err
	}
	j.Val = vfDec(j.Val)
	*cl = vfCall(j)
	return nil
}

type vfEntryJ vfEntry

func (e vfEntry) MarshalJSON() ([]byte, error) {
	j := vfEntryJ(e)
	j.Body = vfEnc(j.Body)
	return json.Marshal(j)
}

func (e *vfEntry) UnmarshalJSON(b []byte) error {
	var j vfEntryJ
	if err := json.Unmarshal(b, &j); err != nil {
		return err
	}
	j.Body = vfDec(j.Body)
	*e = vfEntry(j)
	return nil
}

func (cl vfCall) config(dir string) *Config {
	fn := cl.File
	if fn == "" && !cl.standalone() {
		fn = "f"
	}
	opts := []func(*Config){Dir(dir)}
	if fn != "" {
		// standalone calls keep the default name (test name with / replaced by _)
		opts = append(opts, Filename(fn))
	}
	switch cl.Upd {
	case "true":
		opts = append(opts, Update(true))
	case "false":
		opts = append(opts, Update(false))
	}
	return WithConfig(opts...)
}

func (cl vfCall) input() any {
	if cl.Form == "bytes" {
		return []byte(cl.Val)
	}
	return cl.Val
}

// do performs the call on the real code.
func (cl vfCall) do(t *vfT, dir string) {
	cfg := cl.config(dir)
	switch cl.API {
	case "snap":
		cfg.MatchSnapshot(t, cl.input())
	case "json":
		cfg.MatchJSON(t, cl.input())
	case "yaml":
		cfg.MatchYAML(t, cl.input())
	case "ssnap":
		cfg.MatchStandaloneSnapshot(t, cl.input())
	case "sjson":
		cfg.MatchStandaloneJSON(t, cl.input())
	default:
		panic("bad api " + cl.API)
	}
}

func (cl vfCall) standalone() bool { return cl.API == "ssnap" || cl.API == "sjson" }

func (cl vfCall) fileName() string {
	fn := cl.File
	if fn == "" {
		fn = "f"
	}
	return fn + ".snap"
}

// ---------------------------------------------------------------------------
// Clean in process (DESIGN §4): flags are always set explicitly.

func vfSetFlags(run string, count int) {
	if flag.Lookup("test.run") != nil {
		flag.Set("test.run", run)
	}
	if flag.Lookup("test.count") != nil {
		flag.Set("test.count", strconv.Itoa(count))
	}
}

// vfCaptureStdout runs f and returns what it printed to os.Stdout.
func vfCaptureStdout(f func()) string {
	old := os.Stdout
	r, w, err := os.Pipe()
	if err != nil {
		panic(err)
	}
	os.Stdout = w
	done := make(chan string)
	go func() {
		b, _ := io.ReadAll(r)
		done <- string(b)
	}()
	func() {
		defer func() {
			os.Stdout = old
			w.Close()
		}()
		f()
	}()
	return <-done
}

func vfClean(run string, count int, sortOpt bool) string {
	vfSetFlags(run, count)
	return vfCaptureStdout(func() {
		if sortOpt {
			Clean(nil, CleanOpts{Sort: true})
		} else {
			Clean(nil)
		}
	})
}

// vfSummary is the parsed Snapshot Summary.
type vfSummary struct {
	Present  bool
	Counts   map[string]int // passed, failed, added, updated, skipped
	ObsFiles []string
	ObsTests []string
	Removed  bool // lists say "removed" rather than "obsolete"
}

func vfParseSummary(out string) vfSummary {
	s := vfSummary{Counts: map[string]int{}}
	section := ""
	for _, l := range strings.Split(out, "\n") {
		l = strings.TrimSpace(l)
		if strings.Contains(l, "Snapshot Summary") {
			s.Present = true
			continue
		}
		if strings.Contains(l, " snapshot") {
			f := strings.Fields(l)
			// "<sym> <n> snapshot(s) <verb>"  or "› <n> snapshot file(s)|test(s) obsolete|removed"
			for i := 0; i+1 < len(f); i++ {
				n, err := strconv.Atoi(f[i])
				if err != nil || !strings.HasPrefix(f[i+1], "snapshot") {
					continue
				}
				rest := f[i+2:]
				if len(rest) == 1 {
					s.Counts[rest[0]] += n
					section = ""
				} else if len(rest) == 2 {
					section = strings.TrimSuffix(rest[0], "s")
					s.Counts["list_"+section] = n
					if rest[1] == "removed" {
						s.Removed = true
					}
				}
				break
			}
			continue
		}
		if i := strings.Index(l, "• "); i >= 0 && section != "" {
			item := l[i+len("• "):]
			if section == "file" {
				s.ObsFiles = append(s.ObsFiles, item)
			} else {
				s.ObsTests = append(s.ObsTests, item)
			}
		}
	}
	sort.Strings(s.ObsFiles)
	sort.Strings(s.ObsTests)
	return s
}

func vfSorted(l []string) []string {
	o := append([]string{}, l...)
	sort.Strings(o)
	return o
}

func vfStrs(l []string) string { return "[" + strings.Join(l, ", ") + "]" }

// vfViaCommon reaches the non-test helper from THIS test file (zz_verif_common_test.go).
//
//go:noinline
func vfViaCommon(cfg *Config, t testingT, v any) {
	vfNonTestMatch(cfg, t, v)
}
