//go:build verif

package snaps

import (
	"fmt"
	"github.com/gkampitakis/go-snaps/internal/verifhook/sched"
	"os"
	"path/filepath"
	"sort"
	"strings"
)

// C10 — Clean rewrites preserve content; sorting is an idempotent permutation
// (DESIGN §6 C10). A case is a SET of entries with a liveness assignment; the
// run loops over EVERY permutation of the set as initial file order.
// Trace per permutation: Clean; Clean.

type c10Case struct {
	IDs    []string       `json:"ids"`    // canonical order
	Bodies []string       `json:"bodies"` // values, parallel to IDs
	Calls  map[string]int `json:"calls"`  // test name -> number of calls made in this run (0 / absent = test did not run)
	Sort   bool           `json:"sort"`
	Env    string         `json:"env"`
	Extra  bool           `json:"extra,omitempty"` // two more addressed files (examined before and after f.snap) holding a STALE entry under an id that is live in f.snap
}

var c10Universe = []string{"TestA - 1", "TestA - 2", "TestA - 10", "TestA/m[k]v - 1", "TestB - 1", "Test_1 - 1", "TestA/c_01 - 1", "TestA/c_1 - 1", "FuzzA/seed#0 - 1", "TestA/9 - 10", "TestA/10 - 9", "TestA/1700000000 - 9"}

var c10Bodies = []string{"a", "", "x\n\ny", "---", "[TestA - 1]", "\n", "/-/-/-/", " ", "b\n", "[TestB - 1]\nz", "\xff", "$1%d", "k:\n[TestQ - 7]\nv", "before\n--- \nafter", "head\n\n[TestA - 1]\ntail", "100% done %s\n%!d(MISSING)", c10Big, c10Long, c10Huge,
	// bracketed lines that are NOT entry headers (no ` - `, no number, trailing text)
	"HTTP/1.1 200 OK\r\nHost: x\r\n\r\nbody", "[draft]\n[a - b]\n[TestA - 1x]\n[TestA - ]\n[ - 1]", "[]\n[TestA-1]\n[TestA - 1] x"}

// c10Big: a body larger than any line buffer a reader might use (many lines, 6 KB)
var c10Big = strings.Repeat("a line of the big body 0123456789\n", 180) + "end"

// c10Long / c10Huge: ONE line longer than the 4 KiB default reader buffer / the 64 KiB default scanner token
var c10Long = "<" + strings.Repeat("L", 5000) + ">"
var c10Huge = "first\n<" + strings.Repeat("H", 70000) + ">\nlast"

func c10Gen(c *vfCtx, emit func(c10Case)) {
	env := os.Getenv("UPDATE_SNAPS")
	c.bound("update_snaps_of_this_process", env)
	uni := c10Universe
	maxN := 4
	if c.thorough() {
		uni = append(append([]string{}, uni...), "TestA - 3", "TestAB - 1", "TestA/x - 2", "TestA/[x] - 1", "TestA/x.snap - 1", "TestA/a:b_%d - 1")
		maxN = 5
	}
	c.bound("id_universe", uni)
	c.bound("max_entries", maxN)
	c.bound("bodies", vfQ(c10Bodies))
	var subsets [][]int
	var rec func(start int, acc []int)
	rec = func(start int, acc []int) {
		if len(acc) > 0 {
			subsets = append(subsets, append([]int{}, acc...))
		}
		if len(acc) == maxN {
			return
		}
		for i := start; i < len(uni); i++ {
			rec(i+1, append(acc, i))
		}
	}
	rec(0, nil)
	for si, sub := range subsets {
		if !c.thorough() && (len(sub) == 4 && si%32 != 0 || len(sub) == 3 && si%3 != 0) {
			continue
		}
		if c.thorough() && (len(sub) == 5 && si%360 != 0 || len(sub) == 4 && si%10 != 0) {
			// measured: all 4- and 5-subsets with every permutation do not finish within the deadline; after the extra files, the
			// 70 KB bodies and the CR LF initial orders came in, every 120th / 6th did not either (1933 s, deadline) -> every 360th / 10th
			continue
		}
		var ids []string
		names := map[string]int{} // test name -> max ordinal present
		for _, i := range sub {
			ids = append(ids, uni[i])
			n, k, _ := vfSplitID(uni[i])
			if k > names[n] {
				names[n] = k
			}
		}
		var nameList []string
		for n := range names {
			nameList = append(nameList, n)
		}
		sort.Strings(nameList)
		// liveness assignments: every subset of tests runs (with all its calls); plus TestA running a single call
		var live []map[string]int
		for mask := 0; mask < 1<<len(nameList); mask++ {
			m := map[string]int{}
			for i, n := range nameList {
				if mask&(1<<i) != 0 {
					m[n] = names[n]
				}
			}
			if len(m) == 0 {
				continue // no test ran: Clean visits nothing
			}
			live = append(live, m)
			if names["TestA"] > 1 && m["TestA"] > 0 {
				m2 := map[string]int{}
				for k, v := range m {
					m2[k] = v
				}
				m2["TestA"] = 1
				live = append(live, m2)
			}
		}
		for bv := 0; bv < 3; bv++ {
			if !c.thorough() && bv == 2 && len(sub) > 2 {
				continue
			}
			var bodies []string
			for i := range ids {
				b := c10Bodies[(i*5+bv*4+si)%len(c10Bodies)]
				if b == c10Huge && si%3 != 0 {
					b = c10Long // the 70 KB line in every third subset only (each case runs every permutation)
				}
				bodies = append(bodies, b)
			}
			for li, lv := range live {
				for _, srt := range []bool{false, true} {
					emit(c10Case{IDs: ids, Bodies: bodies, Calls: lv, Sort: srt, Env: env})
					if bv == 0 && (len(sub) <= 2 || (si+li)%4 == 0) {
						emit(c10Case{IDs: ids, Bodies: bodies, Calls: lv, Sort: srt, Env: env, Extra: true})
					}
				}
			}
		}
	}
}

func c10Perms(n int) [][]int {
	var out [][]int
	p := make([]int, n)
	for i := range p {
		p[i] = i
	}
	var rec func(k int)
	rec = func(k int) {
		if k == n {
			out = append(out, append([]int{}, p...))
			return
		}
		for i := k; i < n; i++ {
			p[k], p[i] = p[i], p[k]
			rec(k + 1)
			p[k], p[i] = p[i], p[k]
		}
	}
	rec(0)
	return out
}

func c10Run(c *vfCtx, cs c10Case) {
	if cs.Env != os.Getenv("UPDATE_SNAPS") {
		c.harnessErr("C10: case recorded with UPDATE_SNAPS=%q, process has %q", cs.Env, os.Getenv("UPDATE_SNAPS"))
		return
	}
	c.addSet("nontrivial", vfHashJSON(cs))
	class := ""
	for _, id := range cs.IDs {
		if !strings.HasPrefix(id, "Test") {
			class = "K6-non-Test-id-dropped-on-rewrite"
		}
	}
	bodyOf := map[string]string{}
	for i, id := range cs.IDs {
		bodyOf[id] = cs.Bodies[i]
	}
	// program: each running test makes its calls; slot present -> stored value, slot absent -> a failing call that creates nothing
	var tests []vfTestExec
	var names []string
	for n := range cs.Calls {
		names = append(names, n)
	}
	sort.Strings(names)
	for _, n := range names {
		te := vfTestExec{Name: n}
		for k := 1; k <= cs.Calls[n]; k++ {
			if v, ok := bodyOf[fmt.Sprintf("%s - %d", n, k)]; ok {
				te.Calls = append(te.Calls, vfCall{API: "snap", Val: v})
			} else {
				te.Calls = append(te.Calls, vfCall{API: "snap", Val: "absent", Upd: "false"})
			}
		}
		tests = append(tests, te)
	}
	totalOrder := true
	for i := range cs.IDs {
		for j := i + 1; j < len(cs.IDs); j++ {
			if _, tie := vfNaturalCmp(cs.IDs[i], cs.IDs[j]); tie {
				totalOrder = false
			}
		}
	}
	var sortedBytes []byte
	sortedFrom := ""
	for pn, perm := range c10Perms(len(cs.IDs)) {
		var es []vfEntry
		for _, i := range perm {
			es = append(es, vfEntry{ID: cs.IDs[i], Body: cs.Bodies[i]})
		}
		sc := vfCleanScenario{Files: []vfNamedFile{{Name: "f.snap", Entries: es}}, Tests: tests, Count: 1, Sort: cs.Sort, Env: cs.Env, Clean2: true}
		sc.CRLF = pn%3 == 2 // every third initial order: the same file as a checkout with CR LF line ends leaves it
		var foreign []string
		if cs.Extra {
			// every id that is live in f.snap also names a stale entry of a.snap and of z.snap (addressed by TestKeep only)
			var fe []vfEntry
			for _, id := range cs.IDs {
				n, k, _ := vfSplitID(id)
				if cs.Calls[n] >= k {
					fe = append(fe, vfEntry{ID: id, Body: "stale here, live in f.snap"})
					foreign = append(foreign, id)
				}
			}
			keep := vfEntry{ID: "TestKeep - 1", Body: "k"}
			sc.Files = append(sc.Files, vfNamedFile{Name: "a.snap", Entries: append([]vfEntry{keep}, fe...)}, vfNamedFile{Name: "z.snap", Entries: append(append([]vfEntry{}, fe...), keep)})
			// and one file, examined before all others, whose last entry lost its terminator (a truncated file): whatever Clean makes of
			// THAT file, nothing of it may end up in the files examined afterwards
			sc.Files = append(sc.Files, vfNamedFile{Name: "0.snap", Entries: []vfEntry{keep}})
			sc.Append = map[string]string{"0.snap": "\n[TestTrunc - 1]\nleftover line 1\nleftover line 2\n"}
			sc.Tests = append(append([]vfTestExec{}, tests...), vfTestExec{Name: "TestKeep", Calls: []vfCall{{API: "snap", Val: "k", File: "0"}, {API: "snap", Val: "k", File: "a"}, {API: "snap", Val: "k", File: "z"}}})
		}
		o := vfRunClean(c, sc)
		c.count("transitions", int64(len(o.callObs)+2))
		c.count("permutations", 1)
		c.addSet("states", vfHashDir(o.after))
		fail := func(f string, a ...any) {
			c.violation(class, fmt.Sprintf("initial order %v: ", c05IDs(es))+fmt.Sprintf(f, a...), cs)
		}
		if vfClassK2(o.m) {
			// known finding K2: a body line equals the header of a slot addressed in this file
			class = "K2-header-line-in-body"
		}
		for i, co := range o.callObs {
			if strings.Contains(co.Call.Val, "\r") {
				continue // whether a value with CR LF line ends replays is the documented limitation; the differential below still applies
			}
			if co.Got != co.Want {
				fail("before Clean: call %d (%q in %s) signalled %s, model %s", i+1, vfClip(co.Call.Val), co.Test, co.Got, co.Want)
				return
			}
		}
		staleE, _, _, _ := vfStaleSets(sc, o.m)
		stale := map[string]bool{}
		for _, id := range staleE["f.snap"] {
			stale[id] = true
		}
		pre, _ := vfParse(o.before["f.snap"].Data)
		post, err := vfParse(o.after["f.snap"].Data)
		if err != nil {
			fail("f.snap malformed after Clean: %v (%q)", err, vfClip(string(o.after["f.snap"].Data)))
			return
		}
		var want []vfEntry
		needPrune := false
		for _, e := range pre {
			if sc.mayDelete() && stale[e.ID] {
				needPrune = true
				continue
			}
			want = append(want, e)
		}
		// a CR before a line feed is not part of the replayed value (documented limitation): compared without it
		nocr := func(s string) string { return strings.TrimSuffix(strings.ReplaceAll(s, "\r\n", "\n"), "\r") }
		mk := func(es []vfEntry) string {
			var s []string
			for _, e := range es {
				s = append(s, e.ID+"\x00"+nocr(e.Body))
			}
			sort.Strings(s)
			return strings.Join(s, "\x01")
		}
		if mk(post) != mk(want) {
			fail("after Clean the file holds %s, surviving entries should be %s", vfShowEntries(post), vfShowEntries(want))
			return
		}
		for _, xf := range []string{"a.snap", "z.snap"} {
			if !cs.Extra {
				break
			}
			xs, xerr := vfParse(o.after[xf].Data)
			wantN := 1 + len(foreign)
			if sc.mayDelete() {
				wantN = 1
			}
			hasKeep := false
			for _, e := range xs {
				if e.ID == "TestKeep - 1" && e.Body == "k" {
					hasKeep = true
				}
			}
			if xerr != nil || !hasKeep || len(xs) != wantN {
				fail("%s (addressed by TestKeep only; stale entries %v, delete allowed=%v) holds %s after Clean (%v)", xf, foreign, sc.mayDelete(), vfShowEntries(xs), xerr)
				return
			}
		}
		sortedAlready := true
		for i := 1; i < len(pre); i++ {
			if cmp, tie := vfNaturalCmp(pre[i-1].ID, pre[i].ID); cmp > 0 && !tie {
				sortedAlready = false
			}
		}
		if sc.maySort() {
			for i := 1; i < len(post); i++ {
				if cmp, tie := vfNaturalCmp(post[i-1].ID, post[i].ID); cmp > 0 && !tie {
					fail("sort requested, ids after Clean not in natural order: %v", c05IDs(post))
					return
				}
			}
			if totalOrder {
				if sortedBytes == nil {
					sortedBytes, sortedFrom = o.after["f.snap"].Data, fmt.Sprint(c05IDs(es))
				} else if nocr(string(sortedBytes)) != nocr(string(o.after["f.snap"].Data)) {
					fail("sorted result depends on the initial order: %q here, %q from initial order %s", vfClip(string(o.after["f.snap"].Data)), vfClip(string(sortedBytes)), sortedFrom)
					return
				}
			}
		} else if !func() bool {
			if len(post) != len(want) {
				return false
			}
			for i := range post {
				if post[i].ID != want[i].ID || nocr(post[i].Body) != nocr(want[i].Body) {
					return false
				}
			}
			return true
		}() {
			fail("sorting not requested/allowed, yet surviving entries were reordered: %v", c05IDs(post))
			return
		}
		if !needPrune && (!sc.maySort() || sortedAlready) {
			var muts []sched.Op
			for _, op := range vfMutOps(o.ops) {
				if filepath.Base(op.Res) == "f.snap" {
					muts = append(muts, op)
				}
			}
			if len(muts) > 0 {
				fail("the file needs neither pruning nor sorting, yet Clean performed %s", vfShowOps(muts))
				return
			}
			a, b := o.after["f.snap"], o.before["f.snap"]
			if a.Inode != b.Inode || a.Mtime != b.Mtime || string(a.Data) != string(b.Data) {
				fail("the file needs neither pruning nor sorting, yet it was rewritten")
				return
			}
		}
		// second Clean changes nothing
		if muts := vfMutOps(o.ops2); len(muts) > 0 {
			fail("second Clean performed %s", vfShowOps(muts))
			return
		}
		if d := vfDirDiff(o.before2, o.after2, true); d != "" {
			fail("second Clean changed the directory: %s", d)
			return
		}
		// every survivor replays its old value through the public API
		vfResetState(true, "", true)
		obs2 := vfRunTests(o.dir, vfNewModel(true, ""), tests)
		for i, co := range obs2 {
			if o.callObs[i].Got == "pass" && co.Got != "pass" {
				fail("call %d (%q in %s) passed before Clean and signals %s after it: %s", i+1, vfClip(co.Call.Val), co.Test, co.Got, vfClip(co.ErrText))
				return
			}
		}
	}
	c.outcome(fmt.Sprintf("entries=%d sort=%v delete=%v", len(cs.IDs), cs.Sort, !false && (cs.Env == "true" || cs.Env == "clean")))
}

func init() {
	vfRegister("C10", func(c *vfCtx, emit func(c10Case)) {
		c.rule = "every subset (<= max_entries) of the id universe x liveness assignment (which tests ran, how many calls) x body assignment x sort, in each UPDATE_SNAPS process; " +
			"per case EVERY permutation of the entries as initial file order is run through Clean; Clean; evaluations = cases, permutations counted separately"
		c10Gen(c, emit)
	}, c10Run)
}
