//go:build verif

package snaps

import (
	"bytes"
	"encoding/json"
	"fmt"
	"regexp"
	"sort"
	"strconv"
	"strings"

	"github.com/gkampitakis/go-snaps/match"
	"github.com/goccy/go-yaml"
)

// C15 — matchers change only what they target and never the caller's data
// (DESIGN §6 C15). Depth 1..2 exploration over documents x every existing path
// x placeholders x matcher kinds; exhaustive within the bounds.

// vfNode is an ORDERED document tree.
type vfNode struct {
	Kind   string // obj | arr | scalar
	Keys   []string
	Vals   []*vfNode
	Scalar string
}

func (n *vfNode) String() string {
	switch n.Kind {
	case "obj":
		var p []string
		for i, k := range n.Keys {
			p = append(p, strconv.Quote(k)+":"+n.Vals[i].String())
		}
		return "{" + strings.Join(p, ",") + "}"
	case "arr":
		var p []string
		for _, v := range n.Vals {
			p = append(p, v.String())
		}
		return "[" + strings.Join(p, ",") + "]"
	}
	return n.Scalar
}

// vfJSONTree decodes JSON text into an ordered tree (key order preserved).
func vfJSONTree(b []byte) (*vfNode, error) {
	dec := json.NewDecoder(bytes.NewReader(b))
	dec.UseNumber()
	n, err := vfJSONTreeDec(dec)
	if err != nil {
		return nil, err
	}
	if _, err := dec.Token(); err == nil {
		return nil, fmt.Errorf("trailing data")
	}
	return n, nil
}

func vfJSONTreeDec(dec *json.Decoder) (*vfNode, error) {
	tok, err := dec.Token()
	if err != nil {
		return nil, err
	}
	switch t := tok.(type) {
	case json.Delim:
		switch t {
		case '{':
			n := &vfNode{Kind: "obj"}
			for dec.More() {
				kt, err := dec.Token()
				if err != nil {
					return nil, err
				}
				v, err := vfJSONTreeDec(dec)
				if err != nil {
					return nil, err
				}
				n.Keys = append(n.Keys, kt.(string))
				n.Vals = append(n.Vals, v)
			}
			_, err := dec.Token()
			return n, err
		case '[':
			n := &vfNode{Kind: "arr"}
			for dec.More() {
				v, err := vfJSONTreeDec(dec)
				if err != nil {
					return nil, err
				}
				n.Vals = append(n.Vals, v)
			}
			_, err := dec.Token()
			return n, err
		}
		return nil, fmt.Errorf("unexpected delimiter %v", t)
	case string:
		return &vfNode{Kind: "scalar", Scalar: strconv.Quote(t)}, nil
	case json.Number:
		return &vfNode{Kind: "scalar", Scalar: "num:" + t.String()}, nil
	case bool:
		return &vfNode{Kind: "scalar", Scalar: fmt.Sprint(t)}, nil
	case nil:
		return &vfNode{Kind: "scalar", Scalar: "null"}, nil
	}
	return nil, fmt.Errorf("unexpected token %v", tok)
}

// vfYAMLTree decodes every document of a YAML stream into ordered trees.
func vfYAMLTree(b []byte) ([]*vfNode, error) {
	dec := yaml.NewDecoder(bytes.NewReader(b), yaml.UseOrderedMap())
	var out []*vfNode
	for {
		var v any
		err := dec.Decode(&v)
		if err != nil {
			if err.Error() == "EOF" {
				return out, nil
			}
			return out, err
		}
		out = append(out, vfFromGo(v))
	}
}

func vfFromGo(v any) *vfNode {
	switch t := v.(type) {
	case yaml.MapSlice:
		n := &vfNode{Kind: "obj"}
		for _, it := range t {
			n.Keys = append(n.Keys, fmt.Sprint(it.Key))
			n.Vals = append(n.Vals, vfFromGo(it.Value))
		}
		return n
	case map[string]any:
		n := &vfNode{Kind: "obj"}
		var ks []string
		for k := range t {
			ks = append(ks, k)
		}
		for _, k := range vfSorted(ks) {
			n.Keys = append(n.Keys, k)
			n.Vals = append(n.Vals, vfFromGo(t[k]))
		}
		return n
	case []any:
		n := &vfNode{Kind: "arr"}
		for _, e := range t {
			n.Vals = append(n.Vals, vfFromGo(e))
		}
		return n
	case string:
		return &vfNode{Kind: "scalar", Scalar: strconv.Quote(t)}
	case nil:
		return &vfNode{Kind: "scalar", Scalar: "null"}
	case bool:
		return &vfNode{Kind: "scalar", Scalar: fmt.Sprint(t)}
	}
	return &vfNode{Kind: "scalar", Scalar: "num:" + fmt.Sprint(v)}
}

type vfStep struct {
	Key string
	Idx int
	Arr bool
}

// paths lists every member / element path of the tree.
func (n *vfNode) paths(prefix []vfStep, out *[][]vfStep) {
	for i, v := range n.Vals {
		st := vfStep{Idx: i, Arr: n.Kind == "arr"}
		if n.Kind == "obj" {
			st.Key = n.Keys[i]
		}
		p := append(append([]vfStep{}, prefix...), st)
		*out = append(*out, p)
		v.paths(p, out)
	}
}

// atKeys resolves object steps by key (positions may differ after key sorting).
func (n *vfNode) atKeys(p []vfStep) *vfNode {
	cur := n
	for _, s := range p {
		next := -1
		if s.Arr {
			next = s.Idx
		} else {
			for i, k := range cur.Keys {
				if k == s.Key {
					next = i
				}
			}
		}
		if cur == nil || next < 0 || next >= len(cur.Vals) {
			return &vfNode{Kind: "missing"}
		}
		cur = cur.Vals[next]
	}
	return cur
}

// sorted returns a copy with object members ordered by key.
func (n *vfNode) sorted() *vfNode {
	c := &vfNode{Kind: n.Kind, Scalar: n.Scalar}
	idx := make([]int, len(n.Vals))
	for i := range idx {
		idx[i] = i
	}
	if n.Kind == "obj" {
		sort.SliceStable(idx, func(a, b int) bool { return n.Keys[idx[a]] < n.Keys[idx[b]] })
	}
	for _, i := range idx {
		if n.Kind == "obj" {
			c.Keys = append(c.Keys, n.Keys[i])
		}
		c.Vals = append(c.Vals, n.Vals[i].sorted())
	}
	return c
}

func (n *vfNode) at(p []vfStep) *vfNode {
	cur := n
	for _, s := range p {
		if cur == nil || s.Idx >= len(cur.Vals) {
			return &vfNode{Kind: "missing"}
		}
		cur = cur.Vals[s.Idx]
	}
	return cur
}

// replaced returns a copy of the tree with the node at p replaced.
func (n *vfNode) replaced(p []vfStep, with *vfNode) *vfNode {
	if len(p) == 0 {
		return with
	}
	c := &vfNode{Kind: n.Kind, Keys: n.Keys, Scalar: n.Scalar, Vals: append([]*vfNode{}, n.Vals...)}
	c.Vals[p[0].Idx] = n.Vals[p[0].Idx].replaced(p[1:], with)
	return c
}

// gjson path spelling with the escapes a key needs.
func vfGJSONPath(p []vfStep) (string, bool) {
	var parts []string
	for _, s := range p {
		if s.Arr {
			parts = append(parts, strconv.Itoa(s.Idx))
			continue
		}
		if s.Key == "" {
			return "", false // an empty key cannot be addressed
		}
		if _, err := strconv.Atoi(s.Key); err == nil {
			return "", false
		}
		var b strings.Builder
		for _, r := range s.Key {
			if strings.ContainsRune(`.*?|#@\!{}[]()=<>%:`, r) {
				b.WriteByte('\\')
			}
			b.WriteRune(r)
		}
		parts = append(parts, b.String())
	}
	return strings.Join(parts, "."), true
}

func vfYAMLPath(p []vfStep) string {
	s := "$"
	for _, st := range p {
		if st.Arr {
			s += fmt.Sprintf("[%d]", st.Idx)
		} else {
			s += "." + st.Key
		}
	}
	return s
}

type c15Case struct {
	Lang  string `json:"lang"` // json | yaml
	Doc   string `json:"doc"`
	Path  int    `json:"path"`           // index into the document's path list
	Path2 int    `json:"path2"`          // second matcher's path (-1 none)
	Kind  string `json:"kind"`           // any | type | custom
	PH    int    `json:"ph"`             // placeholder index
	Bytes bool   `json:"bytes"`          // pass the input as []byte
	Via   string `json:"via"`            // direct (matcher method) | api (MatchJSON / MatchYAML)
	Wild  string `json:"wild,omitempty"` // kind wild*: a gjson path with `#` components (every element of a list)
}

var c15PH = []any{"s", "<Any value>", strings.Repeat("long-placeholder-", 4), 7, nil, map[string]any{"k": 1}, []any{1, "x"}, true, "with \"quotes\" and \n newline",
	"true", "null", "123", "1.5", "~", "", "- x", "k: v", "# c", "é «x»", "*a", "&a", "[x]", "{x}", "'q'", " lead", "trail ", "a: b: c", "|", ">", "%", "@", "a, b", "x]y", "k}", "tab\there",
	// JSON only (c15PHJSONOnly): control characters, DEL, a non-printable rune beyond the BMP, a cut-off multi-byte rune
	"\x1b[0m esc", "nul\x00byte", "del\x7f", "vt\v ff\f bs\b", "tag\U000e0001", "caf\xc3"}

// c15PHJSONOnly: index of the first placeholder that is enumerated for JSON documents only
var c15PHJSONOnly = len(c15PH) - 6

func c15PHTree(ph any) *vfNode {
	b, _ := json.Marshal(ph)
	n, _ := vfJSONTree(b)
	return n
}

func c15JSONDocs(thorough bool) []string {
	var out []string
	for _, d := range c14Docs(thorough) {
		if d.IsArr || d.IsObj {
			out = append(out, d.render(0, 0), d.render(2, 0))
		}
	}
	out = append(out, `{"user":"a-very-long-user-name-here","x":1}`, `{"a":{"b":{"c":[1,{"d":"deep"}]}},"z":"end"}`, `[[1,2],[3,[4,5]]]`, `{"a.b":{"c*d":1,"e":2},"a":{"b":3}}`)
	if !thorough {
		var r []string
		for i, d := range out {
			if i%5 == 0 || i >= len(out)-4 {
				r = append(r, d)
			}
		}
		out = r
	}
	// top-level keys that start with `$` or `.` next to their plain twins (a path names exactly one of them)
	out = append(out, `{"$schema":"s","schema":1,"$":3,".hidden":4,"hidden":5}`, `{"$defs":{"name":1},"defs":{"name":2}}`)
	return out
}

var c15YAMLDocs = []string{
	"a: 1\nb: x\n", "a: 1\nb: x", "a:\n  b: 1\n  c: [1, 2]\nd: end\n", "s:\n  - x\n  - y\n  - k: v\n    l: w\nz: 1\n",
	"# head\na: 1 # trailing\n# mid\nb: two\n", "a: {x: 1, y: [1, 2]}\nb: \"q\"\n", "a: |\n  block\n  text\nb: 2\n", "a: >\n  folded\n  text\nb: 2\n",
	"a: 1\n---\nb: 2\n", "x: 0\n---\na: 1\nc: 3\n", "a: null\nb: ~\nc: true\nd: 1.5\ne: '---'\n", "- 1\n- two\n- [3, 4]\n", "a: 'single'\nb: \"double\"\nc: plain text\n",
	"a: 1\n\nb: 2\n\n\nc: 3\n",
	// CR LF line ends
	"a: 1\r\nb:\r\n  - x\r\n  - y\r\nc: end\r\n",
}

var c15YAMLAnchors = []string{"a: &anc 1\nb: *anc\n", "base: &b\n  k: v\nuse: *b\nz: 1\n"}

func c15Docs(c *vfCtx, lang string) []string {
	if lang == "json" {
		return c15JSONDocs(c.thorough())
	}
	if c.thorough() {
		return append(append([]string{}, c15YAMLDocs...), c15YAMLAnchors...)
	}
	return c15YAMLDocs
}

func c15Tree(lang string, doc []byte) ([]*vfNode, error) {
	if lang == "json" {
		n, err := vfJSONTree(doc)
		return []*vfNode{n}, err
	}
	return vfYAMLTree(doc)
}

// c15DocPaths: (document index in stream, path) for every member/element.
func c15DocPaths(trees []*vfNode) [][]vfStep {
	var out [][]vfStep
	for di, t := range trees {
		var ps [][]vfStep
		t.paths(nil, &ps)
		for _, p := range ps {
			out = append(out, append([]vfStep{{Idx: di, Arr: true, Key: "\x00doc"}}, p...))
		}
	}
	return out
}

func c15Gen(c *vfCtx, emit func(c15Case)) {
	for _, lang := range []string{"json", "yaml"} {
		docs := c15Docs(c, lang)
		c.bound(lang+"_documents", len(docs))
		npaths := 0
		for _, doc := range docs {
			trees, err := c15Tree(lang, []byte(doc))
			if err != nil {
				c.harnessErr("C15 grammar: %q: %v", doc, err)
				continue
			}
			ps := c15DocPaths(trees)
			npaths += len(ps)
			for pi := range ps {
				if lang == "json" {
					// a Type that no JSON value satisfies, with ErrOnMissingPath(false): the path EXISTS, so this is an error, not a skipped path
					emit(c15Case{Lang: lang, Doc: doc, Path: pi, Path2: -1, Kind: "typewrong-optional", PH: 0, Via: "direct"})
				}
				for _, kind := range []string{"customtwice", "typeany"} {
					if (pi%2 == 0 || c.thorough()) && (kind != "typeany" || lang == "json") {
						via := "api"
						emit(c15Case{Lang: lang, Doc: doc, Path: pi, Path2: -1, Kind: kind, PH: 0, Via: via})
					}
				}
				for _, kind := range []string{"any", "type", "custom"} {
					for phi := range c15PH {
						if kind == "type" && phi > 0 {
							continue
						}
						if lang != "json" && phi >= c15PHJSONOnly {
							continue
						}
						if !c.thorough() && phi > 5 && phi < c15PHJSONOnly && (pi+phi)%4 != 0 {
							continue
						}
						for _, via := range []string{"direct", "api"} {
							for _, by := range []bool{false, true} {
								if via == "direct" && by {
									continue
								}
								emit(c15Case{Lang: lang, Doc: doc, Path: pi, Path2: -1, Kind: kind, PH: phi, Bytes: by, Via: via})
							}
						}
					}
				}
				// ONE matcher given two paths (applied left to right on the evolving document)
				for pj := range ps {
					if !c.thorough() && pj != pi && (pi+pj)%2 != 0 {
						continue
					}
					for _, kind := range []string{"anymulti", "typemulti", "anymultimap", "anymultiesc"} {
						if kind == "anymultiesc" && lang != "json" {
							continue // a placeholder that needs escaping in JSON text (quote, backslash, non-ASCII, control character)
						}
						emit(c15Case{Lang: lang, Doc: doc, Path: pi, Path2: pj, Kind: kind, PH: 0, Via: "direct"})
					}
				}
				// two matchers left to right: same path twice, and every other path second (api only)
				for pj := range ps {
					if !c.thorough() && pj != pi && (pi+pj)%3 != 0 {
						continue
					}
					emit(c15Case{Lang: lang, Doc: doc, Path: pi, Path2: pj, Kind: "custom", PH: 0, Bytes: true, Via: "api"})
					if pj != pi {
						// Any(p1), Custom(p2), Any(p2): three matchers, the last one wins at p2 and the callback sees the value the document has there
						emit(c15Case{Lang: lang, Doc: doc, Path: pi, Path2: pj, Kind: "sandwich", PH: 0, Via: "api"})
					}
				}
			}
		}
		c.bound(lang+"_paths", npaths)
	}
	c.bound("placeholders", len(c15PH))
	// paths through every element of a list (gjson `#`), one and two levels, lists whose elements do not all have the key
	for _, w := range [][2]string{
		{`{"items":[{"id":1},{"id":2}],"k":0}`, "items.#.id"},
		{`{"items":[{"id":1,"n":"a"},{"x":0},{"id":[3],"n":"c"}],"id":"top"}`, "items.#.id"},
		{`{"items":[{"x":0},{"id":null}]}`, "items.#.id"},
		{`[{"id":1},{"id":2}]`, "#.id"},
		{`{"groups":[{"users":[{"id":1},{"id":2}]},{"users":[{"id":3}]}],"k":0}`, "groups.#.users.#.id"},
		{`{"m":[[{"id":1}],[{"id":2},{"id":3}]]}`, "m.#.#.id"},
	} {
		for _, kind := range []string{"wildany", "wildcustom"} {
			emit(c15Case{Lang: "json", Doc: w[0], Wild: w[1], Kind: kind, Path2: -1, Via: "direct"})
		}
	}
}

// c15WildExpect replaces, in a decoded document, the value at every place the `#` path reaches.
func c15WildExpect(v any, segs []string, ph any) any {
	if len(segs) == 0 {
		return ph
	}
	switch x := v.(type) {
	case []any:
		if segs[0] != "#" {
			return v
		}
		out := make([]any, len(x))
		for i, e := range x {
			out[i] = c15WildExpect(e, segs[1:], ph)
		}
		return out
	case map[string]any:
		e, ok := x[segs[0]]
		if !ok {
			return v
		}
		out := map[string]any{}
		for k, w := range x {
			out[k] = w
		}
		out[segs[0]] = c15WildExpect(e, segs[1:], ph)
		return out
	}
	return v
}

// c15Wild: the matcher either reports an error or yields a valid document in which exactly the reached values are replaced.
func c15Wild(c *vfCtx, cs c15Case) {
	c.addSet("nontrivial", vfHashJSON(cs))
	class := ""
	if strings.Count(cs.Wild, "#") > 1 {
		class = "K16-two-wildcard-levels-corrupt-the-document"
	}
	in := []byte(cs.Doc)
	var out []byte
	var nerr int
	ph := any("<Any value>")
	if cs.Kind == "wildany" {
		o, errs := match.Any(cs.Wild).JSON(in)
		out, nerr = o, len(errs)
	} else {
		ph = "<c>"
		o, errs := match.Custom(cs.Wild, func(any) (any, error) { return "<c>", nil }).JSON(in)
		out, nerr = o, len(errs)
	}
	c.count("transitions", 1)
	if string(in) != cs.Doc {
		c.violation(class, fmt.Sprintf("%s(%q) modified the bytes it was given: %q", cs.Kind, cs.Wild, in), cs)
		return
	}
	c.outcome(fmt.Sprintf("wild:errors=%d", nerr))
	c.addSet("states", vfHash(string(out), fmt.Sprint(nerr)))
	if nerr > 0 {
		return // reporting an error is one of the two allowed answers
	}
	var got, want any
	if err := json.Unmarshal(out, &got); err != nil {
		c.violation(class, fmt.Sprintf("%s(%q) on %s reports no error and yields %q, which is not a JSON document (%v)", cs.Kind, cs.Wild, cs.Doc, vfClip(string(out)), err), cs)
		return
	}
	json.Unmarshal(in, &want)
	want = c15WildExpect(want, strings.Split(cs.Wild, "."), ph)
	if fmt.Sprint(vfDumpAny(got)) != fmt.Sprint(vfDumpAny(want)) {
		c.violation(class, fmt.Sprintf("%s(%q) on %s yields %s; expected every reached value replaced and nothing else changed: %s", cs.Kind, cs.Wild, cs.Doc, vfClip(string(out)), vfDumpAny(want)), cs)
	}
}

func vfDumpAny(v any) string {
	b, _ := json.Marshal(v) // maps are written with sorted keys
	return string(b)
}

func c15TypeMatcherJSON(v *vfNode, path string) match.JSONMatcher {
	switch {
	case v.Kind == "obj":
		return match.Type[map[string]any](path)
	case v.Kind == "arr":
		return match.Type[[]any](path)
	case strings.HasPrefix(v.Scalar, `"`):
		return match.Type[string](path)
	case strings.HasPrefix(v.Scalar, "num:"):
		return match.Type[float64](path)
	case v.Scalar == "true" || v.Scalar == "false":
		return match.Type[bool](path)
	}
	return nil
}

func c15Run(c *vfCtx, cs c15Case) {
	if strings.HasPrefix(cs.Kind, "wild") {
		c15Wild(c, cs)
		return
	}
	trees, err := c15Tree(cs.Lang, []byte(cs.Doc))
	if err != nil {
		c.harnessErr("C15: %v", err)
		return
	}
	ps := c15DocPaths(trees)
	if cs.Path >= len(ps) {
		c.harnessErr("C15: path index out of range")
		return
	}
	full := ps[cs.Path]
	di, p := full[0].Idx, full[1:]
	class := ""
	if cs.Lang == "yaml" && strings.Contains(cs.Doc, "&") {
		class = "K10-yaml-anchor-removed-with-value"
	}
	if cs.Via == "api" && cs.Bytes && cs.Lang == "json" {
		class = "F2-caller-bytes-modified"
	}
	if cs.Lang == "yaml" && class == "" && cs.Kind != "anymulti" && cs.Kind != "typemulti" && (cs.PH == 5 || cs.PH == 6 || cs.PH == 8) {
		// the placeholder marshals to a collection or to a multi-line block scalar
		class = "K11-yaml-multiline-placeholder"
	}
	if s, isStr := c15PH[cs.PH].(string); cs.Lang == "yaml" && class == "" && isStr && strings.HasPrefix(s, "- ") && cs.Kind != "anymulti" && cs.Kind != "typemulti" {
		class = "K12-yaml-placeholder-dash-not-quoted"
	}
	if s, isStr := c15PH[cs.PH].(string); cs.Lang == "yaml" && class == "" && isStr && (strings.Contains(s, "\t") || strings.ContainsAny(s, ",]}") && strings.ContainsAny(cs.Doc, "[{")) && cs.Kind != "anymulti" && cs.Kind != "typemulti" {
		// a tab anywhere; a comma or a closing bracket/brace where the document has flow collections
		class = "K17-yaml-placeholder-not-quoted-where-needed"
	}
	var path string
	if cs.Lang == "json" {
		var ok bool
		if path, ok = vfGJSONPath(p); !ok {
			return
		}
	} else {
		path = vfYAMLPath(p)
		if di > 0 {
			// the path must not also exist in an earlier document of the stream
			for _, q := range ps {
				if q[0].Idx < di && vfYAMLPath(q[1:]) == path {
					return
				}
			}
		}
		for _, st := range p {
			if !st.Arr && strings.ContainsAny(st.Key, " .[]'\"") {
				return
			}
		}
	}
	c.addSet("nontrivial", vfHashJSON(cs))
	if cs.Kind == "anymulti" || cs.Kind == "typemulti" || cs.Kind == "anymultimap" || cs.Kind == "anymultiesc" {
		if cs.Kind == "anymultimap" && cs.Lang == "yaml" {
			// collection placeholders in YAML: only positions where a single-path replacement works are given a verdict (K11 elsewhere)
			class = "K11-yaml-multiline-placeholder"
		}
		c15Multi(c, cs, trees, ps, di, p, path, class)
		return
	}
	if cs.Kind == "typewrong-optional" {
		out, errs := match.Type[struct{ Never int }](path).ErrOnMissingPath(false).JSON([]byte(cs.Doc))
		c.count("transitions", 1)
		c.outcome(fmt.Sprintf("typewrong-optional:errors=%d", len(errs)))
		if len(errs) == 0 {
			c.violation(class, fmt.Sprintf("Type[struct] at the existing path %s of %q with ErrOnMissingPath(false): no error is reported although no JSON value has that type; result %q", path, vfClip(cs.Doc), vfClip(string(out))), cs)
		}
		return
	}
	target := trees[di].at(p)
	ph := c15PH[cs.PH]
	phTree := c15PHTree(ph)
	var seen []string // what the Custom callbacks received
	custom := func(ret any) func(any) (any, error) {
		return func(v any) (any, error) {
			b, _ := json.Marshal(v)
			seen = append(seen, string(b))
			return ret, nil
		}
	}
	var jm []match.JSONMatcher
	var ym []match.YAMLMatcher
	switch cs.Kind {
	case "any":
		m := match.Any(path).Placeholder(ph)
		if cs.PH == 1 {
			m = match.Any(path) // default placeholder
		}
		jm, ym = append(jm, m), append(ym, m)
	case "type":
		if cs.Lang == "json" {
			m := c15TypeMatcherJSON(target, path)
			if m == nil {
				return
			}
			jm = append(jm, m)
			phTree = &vfNode{Kind: "scalar", Scalar: ""} // checked below by prefix
		} else {
			return // YAML Type placeholders depend on go-yaml's scalar typing; covered via Custom/Any
		}
	case "custom":
		m := match.Custom(path, custom(ph))
		jm, ym = append(jm, m), append(ym, m)
	case "sandwich":
		m := match.Any(path)
		jm, ym = append(jm, m), append(ym, m)
		phTree = c15PHTree("<Any value>")
	case "customtwice":
		// the SAME matcher instance listed twice (and an Any instance before and after it): matchers take effect left to right,
		// every occurrence runs. The callback counts its invocations.
		n := 0
		m := match.Custom(path, func(v any) (any, error) {
			n++
			return fmt.Sprintf("call %d", n), nil
		})
		anyM := match.Any(path).Placeholder("any ran")
		jm, ym = append(jm, anyM, m, m, anyM, m), append(ym, anyM, m, m, anyM, m)
		phTree = c15PHTree("call 3")
	case "typeany":
		// Type with an interface type parameter: every value satisfies it, the placeholder names the value's own type
		if cs.Lang != "json" || target.Kind != "scalar" {
			return
		}
		m := match.Type[any](path)
		jm = append(jm, m)
		phTree = &vfNode{Kind: "scalar", Scalar: ""} // checked below by prefix, and against <nil>
	}
	want := make([]*vfNode, len(trees))
	copy(want, trees)
	want[di] = trees[di].replaced(p, phTree)
	if cs.Path2 >= 0 {
		full2 := ps[cs.Path2]
		if full2[0].Idx != di {
			return
		}
		p2 := full2[1:]
		var path2 string
		if cs.Lang == "json" {
			var ok bool
			if path2, ok = vfGJSONPath(p2); !ok {
				return
			}
		} else {
			path2 = vfYAMLPath(p2)
			for _, st := range p2 {
				if !st.Arr && strings.ContainsAny(st.Key, " .[]'\"") {
					return
				}
			}
		}
		// the second path must still exist after the first replacement
		ok := true
		cur := want[di]
		for _, st := range p2 {
			if st.Idx >= len(cur.Vals) || (cur.Kind == "obj") == st.Arr || (cur.Kind == "obj" && cur.Keys[st.Idx] != st.Key) {
				ok = false
				break
			}
			cur = cur.Vals[st.Idx]
		}
		if !ok {
			return
		}
		if cs.Kind == "sandwich" {
			m2, m3 := match.Custom(path2, custom("checked")), match.Any(path2)
			jm, ym = append(jm, m2, m3), append(ym, m2, m3)
			sees := want[di].at(p2)
			want[di] = want[di].replaced(p2, c15PHTree("<Any value>"))
			defer func() {
				if len(seen) == 1 {
					got, _ := vfJSONTree([]byte(seen[0]))
					if got != nil && cs.Lang == "json" && vfNumNorm(got.sorted().String()) != vfNumNorm(sees.sorted().String()) {
						c.violation(class, fmt.Sprintf("matchers must take effect left to right: the callback between two Any matchers received %s, the value at %s is %s when its turn comes", seen[0], path2, sees), cs)
					}
				}
			}()
		}
		m2 := match.Custom(path2, custom("second"))
		if cs.Kind == "sandwich" {
			m2 = nil
		} else {
			jm, ym = append(jm, m2), append(ym, m2)
		}
		secondSees := want[di].at(p2)
		if cs.Kind != "sandwich" {
			want[di] = want[di].replaced(p2, c15PHTree("second"))
		}
		defer func() {
			if len(seen) == 2 {
				got, _ := vfJSONTree([]byte(seen[1]))
				if got != nil && cs.Lang == "json" && vfNumNorm(got.sorted().String()) != vfNumNorm(secondSees.sorted().String()) {
					c.violation(class, fmt.Sprintf("matchers must take effect left to right: the second callback received %s, after the first matcher the value at %s is %s", seen[1], path2, secondSees), cs)
				}
			}
		}()
	}
	in := []byte(cs.Doc)
	orig := append([]byte{}, in...)
	var out []byte
	if cs.Via == "direct" {
		var errs []match.MatcherError
		if cs.Lang == "json" {
			out, errs = jm[0].JSON(append([]byte{}, in...))
		} else {
			out, errs = ym[0].YAML(append([]byte{}, in...))
		}
		c.count("transitions", 1)
		if len(errs) > 0 {
			c.outcome("matcher-error")
			// "either reports an error or ..." : an error is an allowed answer only if nothing is returned as a result
			return
		}
		// the result belongs to the caller: another matcher applied to another document afterwards must not change it
		kept := append([]byte{}, out...)
		if cs.Lang == "json" {
			match.Any("k").Placeholder("overwritten overwritten overwritten").JSON([]byte(`{"k":"some other document that is long enough to fill a reused buffer","z":[1,2,3]}`))
		} else {
			match.Any("$.k").Placeholder("overwritten overwritten overwritten").YAML([]byte("k: some other document that is long enough to fill a reused buffer\nz: [1, 2, 3]\n"))
		}
		if !bytes.Equal(kept, out) {
			c.violation(class, fmt.Sprintf("%s at %s: the returned document changed when ANOTHER matcher was applied to another document afterwards: %q became %q", cs.Kind, path, vfClip(string(kept)), vfClip(string(out))), cs)
			return
		}
	} else {
		dir := c.newWorld()
		vfResetState(false, "", true)
		cfg := WithConfig(Dir(dir), Filename("f"))
		t := &vfT{name: "TestA"}
		var input any = string(in)
		if cs.Bytes {
			input = in
		}
		if cs.Lang == "json" {
			cfg.MatchStandaloneJSON(t, input, jm...)
		} else {
			cfg.MatchYAML(t, input, ym...)
		}
		t.end()
		c.count("transitions", 1)
		if !bytes.Equal(in, orig) {
			c.violation(class, fmt.Sprintf("the caller's []byte was modified: passed %q, afterwards %q (path %s, placeholder %v)", vfClip(string(orig)), vfClip(string(in)), path, ph), cs)
			return
		}
		if len(t.errs) > 0 {
			c.outcome("api-error")
			return
		}
		obs := vfSnapDir(dir)
		if cs.Lang == "json" {
			out = obs["f_1.snap.json"].Data
		} else {
			es, perr := vfParse(obs["f.snap"].Data)
			if perr != nil || len(es) != 1 {
				if vfClassK2Body(string(obs["f.snap"].Data)) {
					return
				}
				c.violation(class, fmt.Sprintf("MatchYAML with matcher: snapshot file malformed: %v %q", perr, vfClip(string(obs["f.snap"].Data))), cs)
				return
			}
			out = []byte(vfUnescapeModel(es[0].Body))
		}
	}
	c.outcome("replaced")
	got, err := c15Tree(cs.Lang, out)
	if err != nil {
		c.violation(class, fmt.Sprintf("%s at %s on %q: the result is not a valid document (%v): %q", cs.Kind, path, vfClip(cs.Doc), err, vfClip(string(out))), cs)
		return
	}
	c.addSet("states", vfHash(string(out)))
	if cs.Kind == "type" || cs.Kind == "typeany" {
		// the placeholder is "<Type:...>": compare everything else, and the shape of the placeholder
		if len(got) == len(want) {
			g := got[di].atKeys(p)
			if g.Kind != "scalar" || !strings.HasPrefix(g.Scalar, `"<Type:`) || strings.Contains(g.Scalar, "<nil>") != (target.Scalar == "null") {
				c.violation(class, fmt.Sprintf("Type at %s: value became %s", path, g), cs)
				return
			}
			want[di] = trees[di].replaced(p, g)
		}
	}
	if cs.Via == "api" && cs.Lang == "json" {
		// the stored snapshot is pretty-printed with sorted keys: positions are compared on the matcher output (via=direct)
		for i := range got {
			got[i] = got[i].sorted()
		}
		for i := range want {
			want[i] = want[i].sorted()
		}
	}
	ok := len(got) == len(want)
	for i := 0; ok && i < len(got); i++ {
		ok = got[i].String() == want[i].String()
	}
	if !ok {
		c.outcome(fmt.Sprintf("mismatch:%s placeholder %q", cs.Lang, fmt.Sprint(ph)))
		c.violation(class, fmt.Sprintf("%s at %s with %v on %q: result %s, expected exactly that node replaced: %s", cs.Kind, path, ph, vfClip(cs.Doc), vfShowTrees(got), vfShowTrees(want)), cs)
	}
}

func vfShowTrees(t []*vfNode) string {
	var s []string
	for _, n := range t {
		s = append(s, n.String())
	}
	return strings.Join(s, " --- ")
}

func vfUnescapeModel(s string) string {
	ls := strings.Split(s, "\n")
	for i, l := range ls {
		if l == "/-/-/-/" {
			ls[i] = "---"
		}
	}
	return strings.Join(ls, "\n")
}

func vfClassK2Body(string) bool { return false }

func init() {
	vfRegister("C15", func(c *vfCtx, emit func(c15Case)) {
		c.rule = "every container document of the C14 grammar (two presentations) and a YAML grammar (block/flow, comments, block scalars, two-document streams, blank lines; thorough: anchors) x EVERY member/element path (with gjson escapes) x 9 placeholders x {Any, Type, Custom} " +
			"x {matcher method, Match* API with string and []byte input}; pairs of matchers left to right; ordered-tree comparison"
		c15Gen(c, emit)
	}, c15Run)
}

var vfNumRe = regexp.MustCompile(`num:[-+0-9.eE]+`)

// vfNumNorm rewrites every number of a tree rendering to its float64 value
// (callbacks receive float64, the tree keeps the literal).
func vfNumNorm(s string) string {
	return vfNumRe.ReplaceAllStringFunc(s, func(m string) string {
		f, err := strconv.ParseFloat(m[4:], 64)
		if err != nil {
			return m
		}
		return "num:" + strconv.FormatFloat(f, 'g', -1, 64)
	})
}

// c15Multi: ONE Any/Type matcher given two paths. Reference: paths are
// applied left to right on the evolving document; a path that does not exist
// at its turn is an error (ErrOnMissingPath default), the others still apply.
func c15Multi(c *vfCtx, cs c15Case, trees []*vfNode, ps [][]vfStep, di int, p []vfStep, path, class string) {
	full2 := ps[cs.Path2]
	if full2[0].Idx != di {
		return
	}
	p2 := full2[1:]
	var path2 string
	if cs.Lang == "json" {
		var ok bool
		if path2, ok = vfGJSONPath(p2); !ok {
			return
		}
	} else {
		path2 = vfYAMLPath(p2)
		for _, st := range p2 {
			if !st.Arr && strings.ContainsAny(st.Key, " .[]'\"") {
				return
			}
		}
	}
	target := trees[di].at(p)
	var ph *vfNode
	var jm match.JSONMatcher
	var ym match.YAMLMatcher
	if cs.Kind == "anymulti" || cs.Kind == "anymultiesc" {
		phs := "PH"
		if cs.Kind == "anymultiesc" {
			phs = "é\"\\\t"
		}
		m := match.Any(path, path2).Placeholder(phs)
		jm, ym = m, m
		ph = c15PHTree(phs)
	} else if cs.Kind == "anymultimap" {
		pm := map[string]any{"k": 1, "l": "two"}
		m := match.Any(path, path2).Placeholder(pm)
		jm, ym = m, m
		ph = c15PHTree(pm)
		if cs.Lang == "yaml" {
			// reference for the known-finding boundary: each path alone must work with this placeholder
			for _, single := range []string{path, path2} {
				out, errs := match.Any(single).Placeholder(pm).YAML([]byte(cs.Doc))
				if len(errs) > 0 {
					return
				}
				w := make([]*vfNode, len(trees))
				copy(w, trees)
				sp := p
				if single == path2 {
					sp = p2
				}
				w[di] = trees[di].replaced(sp, ph)
				got, err := c15Tree("yaml", out)
				same := err == nil && len(got) == len(w)
				for i := 0; same && i < len(got); i++ {
					same = got[i].String() == w[i].String()
				}
				if !same {
					return // K11 territory: the single-path replacement is already wrong here
				}
			}
			class = "" // both single-path replacements are right: applying them in one matcher must be right too
		}
	} else {
		if cs.Lang != "json" || target.Kind != "scalar" || !strings.HasPrefix(target.Scalar, "num:") {
			return
		}
		jm = match.Type[float64](path, path2)
		ph = c15PHTree("<Type:float64>")
	}
	want := make([]*vfNode, len(trees))
	copy(want, trees)
	want[di] = trees[di].replaced(p, ph)
	// does path2 exist (and, for Type, is it still a number) after the first replacement?
	exists := true
	cur := want[di]
	for _, st := range p2 {
		if st.Idx >= len(cur.Vals) || (cur.Kind == "obj") == st.Arr || (cur.Kind == "obj" && cur.Keys[st.Idx] != st.Key) {
			exists = false
			break
		}
		cur = cur.Vals[st.Idx]
	}
	secondOK := exists
	if exists && cs.Kind == "typemulti" && !(cur.Kind == "scalar" && strings.HasPrefix(cur.Scalar, "num:")) {
		secondOK = false
	}
	if secondOK {
		want[di] = want[di].replaced(p2, ph)
	}
	var out []byte
	var errs []match.MatcherError
	if cs.Lang == "json" {
		out, errs = jm.JSON([]byte(cs.Doc))
	} else {
		out, errs = ym.YAML([]byte(cs.Doc))
	}
	c.count("transitions", 1)
	if !secondOK {
		c.outcome("multi:error-expected")
		if len(errs) == 0 {
			c.violation(class, fmt.Sprintf("%s(%q, %q) on %q: after the first path is replaced the second no longer exists / has another type, an error must be reported; got none and %q", cs.Kind, path, path2, vfClip(cs.Doc), vfClip(string(out))), cs)
		}
		return
	}
	c.outcome("multi:replaced")
	if len(errs) > 0 {
		c.violation(class, fmt.Sprintf("%s(%q, %q) on %q: unexpected errors %v", cs.Kind, path, path2, vfClip(cs.Doc), errs), cs)
		return
	}
	got, err := c15Tree(cs.Lang, out)
	if err != nil {
		c.violation(class, fmt.Sprintf("%s(%q, %q): result is not a valid document: %v", cs.Kind, path, path2, err), cs)
		return
	}
	ok := len(got) == len(want)
	for i := 0; ok && i < len(got); i++ {
		ok = got[i].String() == want[i].String()
	}
	if !ok {
		c.violation(class, fmt.Sprintf("%s(%q, %q) on %q: result %s, expected %s", cs.Kind, path, path2, vfClip(cs.Doc), vfShowTrees(got), vfShowTrees(want)), cs)
	}
}
