//go:build verif

package snaps

import (
	"fmt"
	"os"
	"path/filepath"
	"strconv"
	"strings"

	"github.com/gkampitakis/go-snaps/match"
)

// C16 — masked fields never influence the snapshot; unmasked fields always do
// (DESIGN §6 C16). Trace: record(A) ; replay(A') for every variant A'.

// --- helpers on the vfJ document trees of C14 ------------------------------

type vfJStep struct {
	Key string // raw (quoted) key text, "" for array steps
	Idx int
	Arr bool
}

func (j *vfJ) children() []*vfJ {
	if j.IsArr {
		return j.Arr
	}
	if j.IsObj {
		return j.Vals
	}
	return nil
}

func (j *vfJ) allPaths(prefix []vfJStep, out *[][]vfJStep) {
	for i, ch := range j.children() {
		st := vfJStep{Idx: i, Arr: j.IsArr}
		if j.IsObj {
			st.Key = j.Keys[i]
		}
		p := append(append([]vfJStep{}, prefix...), st)
		*out = append(*out, p)
		ch.allPaths(p, out)
	}
}

func (j *vfJ) get(p []vfJStep) *vfJ {
	cur := j
	for _, s := range p {
		cur = cur.children()[s.Idx]
	}
	return cur
}

func (j *vfJ) with(p []vfJStep, n *vfJ) *vfJ {
	if len(p) == 0 {
		return n
	}
	c := *j
	if j.IsArr {
		c.Arr = append([]*vfJ{}, j.Arr...)
		c.Arr[p[0].Idx] = j.Arr[p[0].Idx].with(p[1:], n)
	} else {
		c.Vals = append([]*vfJ{}, j.Vals...)
		c.Vals[p[0].Idx] = j.Vals[p[0].Idx].with(p[1:], n)
	}
	return &c
}

func vfJKeyText(raw string) string {
	s, err := strconv.Unquote(raw)
	if err != nil {
		return raw
	}
	return s
}

func vfJPathJSON(p []vfJStep) (string, bool) {
	var st []vfStep
	for _, s := range p {
		st = append(st, vfStep{Key: vfJKeyText(s.Key), Idx: s.Idx, Arr: s.Arr})
	}
	return vfGJSONPath(st)
}

func vfJPathYAML(p []vfJStep) (string, bool) {
	s := "$"
	for _, st := range p {
		if st.Arr {
			s += fmt.Sprintf("[%d]", st.Idx)
			continue
		}
		k := vfJKeyText(st.Key)
		if k == "" || strings.ContainsAny(k, " .[]'\"-#:$") {
			return "", false
		}
		s += "." + k
	}
	return s, true
}

// yamlBlock renders the tree as block-style YAML (strings always double quoted).
func (j *vfJ) yamlBlock(indent int) string {
	pad := strings.Repeat("  ", indent)
	switch {
	case j.IsObj:
		if len(j.Keys) == 0 {
			return "{}"
		}
		var b strings.Builder
		for i, k := range j.Keys {
			v := j.Vals[i]
			b.WriteString(pad + k + ":")
			if (v.IsObj && len(v.Keys) > 0) || (v.IsArr && len(v.Arr) > 0) {
				b.WriteString("\n" + v.yamlBlock(indent+1))
			} else {
				b.WriteString(" " + v.yamlBlock(0) + "\n")
			}
		}
		return b.String()
	case j.IsArr:
		if len(j.Arr) == 0 {
			return "[]"
		}
		var b strings.Builder
		for _, v := range j.Arr {
			if (v.IsObj && len(v.Keys) > 0) || (v.IsArr && len(v.Arr) > 0) {
				inner := v.yamlBlock(indent + 1)
				b.WriteString(pad + "- " + strings.TrimPrefix(inner, pad+"  "))
			} else {
				b.WriteString(pad + "- " + v.yamlBlock(0) + "\n")
			}
		}
		return b.String()
	}
	return j.Scalar
}

// --- the property ------------------------------------------------------------

type c16Case struct {
	API  string `json:"api"`  // json | sjson | yaml-flow | yaml-block
	Doc  int    `json:"doc"`  // index into c16Docs
	Mask []int  `json:"mask"` // indices into the document's path list
	Kind string `json:"kind"` // any | type | custom | reuse
	Text string `json:"text"`
	Alt  string `json:"alt,omitempty"`  // kind raw*: the second input, differing from Text only at Path
	Path string `json:"path,omitempty"` // kind raw*: the masked path
}

func c16Docs(thorough bool) []*vfJ {
	s := vfJS
	docs := []*vfJ{
		vfJO(`"a"`, s(`1`), `"b"`, s(`"x"`)),
		vfJO(`"user"`, vfJO(`"name"`, s(`"mock-user"`), `"age"`, s(`10`), `"tags"`, vfJA(s(`"t1"`), s(`"t2"`))), `"created"`, s(`"2024-01-01T00:00:00Z"`), `"n"`, s(`12345678901234567890`)),
		vfJA(s(`1`), s(`"two"`), vfJO(`"k"`, s(`true`))),
		vfJO(`"a"`, vfJA(vfJO(`"id"`, s(`1`), `"v"`, s(`"p"`)), vfJO(`"id"`, s(`2`), `"v"`, s(`"q"`))), `"z"`, s(`null`)),
		vfJO(`"f"`, s(`1.0`), `"e"`, s(`1e3`), `"s"`, s(`"---"`), `"h"`, s(`"[TestA - 2]"`)),
		// sibling keys that are textual prefixes of each other, in both orders (paths are compared segment-wise, not as strings)
		vfJO(`"created"`, s(`"2024-01-01"`), `"createdBy"`, s(`"u1"`), `"k10"`, s(`10`), `"k1"`, s(`1`), `"o"`, vfJO(`"id"`, s(`3`), `"id_token"`, s(`"tok"`))),
		// keys that start with `$` (JSON-schema / extended-JSON style) next to the same key without it; numbers in non-canonical spelling
		vfJO(`"$id"`, s(`"u1"`), `"id"`, s(`"u2"`), `"$ref"`, vfJO(`"$oid"`, s(`"abc"`), `"oid"`, s(`1.50`)), `"n"`, s(`3.0`)),
	}
	if thorough {
		docs = append(docs,
			vfJO(`"a.b"`, s(`1`), `"c"`, vfJO(`"d e"`, s(`"x"`), `"f"`, vfJA())),
			vfJO(`"deep"`, vfJO(`"l1"`, vfJO(`"l2"`, vfJA(s(`1`), vfJO(`"l3"`, s(`"v"`))))), `"w"`, s(`false`)),
			vfJA(vfJA(s(`1`), s(`2`)), vfJA(s(`"a"`), vfJA(s(`true`), s(`null`)))),
			vfJO(`"id"`, s(`"7f3c"`), `"ts"`, s(`1700000000`), `"items"`, vfJA(vfJO(`"sku"`, s(`"A1"`), `"qty"`, s(`2`), `"price"`, s(`9.99`)), vfJO(`"sku"`, s(`"B2"`), `"qty"`, s(`1`), `"price"`, s(`0.5`))), `"meta"`, vfJO(`"tags"`, vfJA(), `"note"`, s(`""`))),
			vfJO(`"x"`, s(`"[TestA - 1]"`), `"y"`, s(`"---"`), `"z"`, vfJO(`"w"`, s(`"/-/-/-/"`), `"v"`, s(`"$1 %d"`))),
		)
	}
	return docs
}

func c16Gen(c *vfCtx, emit func(c16Case)) {
	docs := c16Docs(c.thorough())
	c.bound("documents", len(docs))
	for di, d := range docs {
		var ps [][]vfJStep
		d.allPaths(nil, &ps)
		var masks [][]int
		for i := range ps {
			masks = append(masks, []int{i})
			for j := i + 1; j < len(ps); j++ {
				// skip nested pairs (the descendant disappears with its ancestor)
				if len(ps[j]) > len(ps[i]) && fmt.Sprint(ps[j][:len(ps[i])]) == fmt.Sprint(ps[i]) {
					continue
				}
				masks = append(masks, []int{i, j})
				if c.thorough() {
					for k := j + 1; k < len(ps); k++ {
						nested := false
						for _, q := range [][]vfJStep{ps[i], ps[j]} {
							if len(ps[k]) > len(q) && fmt.Sprint(ps[k][:len(q)]) == fmt.Sprint(q) {
								nested = true
							}
						}
						if !nested && (i+j+k)%3 == 0 {
							masks = append(masks, []int{i, j, k})
						}
					}
				}
			}
		}
		for _, api := range []string{"json", "sjson", "yaml-flow", "yaml-block", "yaml-multi"} {
			for _, m := range masks {
				for _, kind := range []string{"any", "type", "custom", "reuse"} {
					if !c.thorough() && len(m) == 2 && (kind == "type" || api == "sjson") {
						continue
					}
					emit(c16Case{API: api, Doc: di, Mask: m, Kind: kind, Text: d.render(0, 0)})
				}
			}
		}
	}
}

// c16Raw: hand-written pairs of inputs (YAML features the document trees cannot render, JSON spellings with escapes) that differ
// only at one masked path.
func c16Raw(emit func(c16Case)) {
	type pr struct{ api, a, b, path string }
	for _, p := range []pr{
		// the LAST key is a keep-chomping block scalar: its trailing newlines belong to the masked value
		{"yaml", "a: 1\nlog: |+\n  line\n\n\n", "a: 1\nlog: |+\n  other\n", "$.log"},
		{"yaml", "a: 1\nlog: |+\n  line\n", "a: 1\nlog: |+\n  x\n  y\n\n", "$.log"},
		{"yaml", "l:\n  - |+\n    item\n\n", "l:\n  - x\n", "$.l[0]"},
		// keys spelled with JSON escapes in the text
		{"json", `{"q\u0026a":"one","z":1}`, `{"q\u0026a":"two","z":1}`, "q&a"},
		{"json", `{"meta":{"caf\u00e9":"one"},"z":1}`, `{"meta":{"caf\u00e9":2},"z":1}`, "meta.café"},
		{"sjson", `{"\u0024id":"one","id":"keep"}`, `{"\u0024id":"two","id":"keep"}`, "$id"},
		// a path through every element of a list (gjson `#`), where some elements lack the key - first, in the middle, last
		{"json", `{"items":[{"id":1,"n":"a"},{"n":"b"},{"id":3,"n":"c"}],"k":1}`, `{"items":[{"id":7,"n":"a"},{"n":"b"},{"id":"nine","n":"c"}],"k":1}`, "items.#.id"},
		{"sjson", `{"items":[{"n":"b"},{"id":3},{"id":4}]}`, `{"items":[{"n":"b"},{"id":5},{"id":null}]}`, "items.#.id"},
		{"json", `{"items":[{"id":1},{"id":2},{}]}`, `{"items":[{"id":2},{"id":1},{}]}`, "items.#.id"},
		{"json", `{"items":[{"id":1},{"id":2}],"users":[{"token":"a","n":1},{"token":"b","n":2}],"k":"plain"}`, `{"items":[{"id":3},{"id":4}],"users":[{"token":"c","n":1},{"token":"d","n":2}],"k":"other"}`, "items.#.id users.#.token k"},
		{"sjson", `{"a":[{"x":1}],"b":[{"y":2}],"c":[{"z":3}]}`, `{"a":[{"x":9}],"b":[{"y":8}],"c":[{"z":7}]}`, "a.#.x b.#.y c.#.z"},
	} {
		for _, kind := range []string{"rawany", "rawany-optional", "rawcustom", "rawcustom-optional"} {
			if strings.Contains(p.path, " ") && strings.HasPrefix(kind, "rawcustom") {
				continue // Custom takes one path
			}
			emit(c16Case{API: p.api, Kind: kind, Text: p.a, Alt: p.b, Path: p.path, Doc: -1})
		}
	}
}

var c16Blob = strings.Repeat("QUJDREVGR0hJSktMTU5PUA", 3200)

// c16RawDiffer: pairs that differ at an UNMASKED place only (white space that is content): they must not pass against each other.
func c16RawDiffer(emit func(c16Case)) {
	for _, p := range [][3]string{
		{"id: 1\nnotes: |\n  first line  \n  second\n", "id: 2\nnotes: |\n  first line\n  second\n", "$.id"},
		{"id: 1\nnotes: |\n  first\t\n  second\n", "id: 1\nnotes: |\n  first\n  second\n", "$.id"},
		{"id: 1\nnotes: \"a  \"\n", "id: 1\nnotes: \"a\"\n", "$.id"},
		{"id: 1\nnotes: |\n  x\n\n  y\n", "id: 1\nnotes: |\n  x\n  y\n", "$.id"},
		// a physical line of 70 KB (an inlined blob) in front of the place where the documents differ
		{"id: 1\nblob: " + c16Blob + "\nstatus: active\n", "id: 2\nblob: " + c16Blob + "\nstatus: suspended\n", "$.id"},
		{"id: 1\nblob: " + c16Blob + "\nstatus: active\n", "id: 1\nblob: " + c16Blob + "x\nstatus: active\n", "$.id"},
	} {
		for _, kind := range []string{"rawdiffer-any", "rawdiffer-none"} {
			emit(c16Case{API: "yaml", Kind: kind, Text: p[0], Alt: p[1], Path: p[2], Doc: -1})
		}
	}
}

func c16RunRawDiffer(c *vfCtx, cs c16Case) {
	c.addSet("nontrivial", vfHashJSON(cs))
	dir := c.newWorld()
	vfResetState(false, "", true)
	var ym []match.YAMLMatcher
	if cs.Kind == "rawdiffer-any" {
		ym = append(ym, match.Any(cs.Path))
	}
	cfg := WithConfig(Dir(dir), Filename("f"), Update(false))
	t := &vfT{name: "TestA"}
	WithConfig(Dir(dir), Filename("f")).MatchYAML(t, cs.Text, ym...)
	t.end()
	if len(t.errs) > 0 {
		c.harnessErr("C16 rawdiffer: recording failed: %v", t.errs)
		return
	}
	vfResetState(false, "", true)
	t2 := &vfT{name: "TestA"}
	cfg.MatchYAML(t2, cs.Alt, ym...)
	t2.end()
	c.count("transitions", 2)
	c.addSet("states", vfHash(cs.Text, cs.Alt, t2.outcome(vfMark{})))
	c.outcome("raw-unmasked-variant:" + t2.outcome(vfMark{}))
	if o := t2.outcome(vfMark{}); o != "failed" {
		c.violation("", fmt.Sprintf("the two documents differ at a place the matchers do not cover (white space inside a value): %q vs %q; the second one signals %s against the first one's snapshot", vfClip(cs.Text), vfClip(cs.Alt), o), cs)
	}
}

func c16RunRaw(c *vfCtx, cs c16Case) {
	c.addSet("nontrivial", vfHashJSON(cs))
	optional := strings.HasSuffix(cs.Kind, "-optional")
	mk := func() (match.JSONMatcher, match.YAMLMatcher) {
		if strings.HasPrefix(cs.Kind, "rawany") {
			m := match.Any(strings.Fields(cs.Path)...).ErrOnMissingPath(!optional) // (several paths of ONE matcher are separated by a blank)
			return m, m
		}
		m := match.Custom(cs.Path, func(any) (any, error) { return "<custom>", nil }).ErrOnMissingPath(!optional)
		return m, m
	}
	root := c.newWorld()
	rec := func(sub, text string) (string, *vfT) {
		dir := filepath.Join(root, sub)
		os.MkdirAll(dir, 0o755)
		vfResetState(false, "", true)
		t := &vfT{name: "TestA"}
		jm, ym := mk()
		cfg := WithConfig(Dir(dir), Filename("f"))
		switch cs.API {
		case "json":
			cfg.MatchJSON(t, text, jm)
		case "sjson":
			cfg.MatchStandaloneJSON(t, text, jm)
		default:
			cfg.MatchYAML(t, text, ym)
		}
		t.end()
		c.count("transitions", 1)
		return string(vfAllBytes(dir)), t
	}
	a, ta := rec("w1", cs.Text)
	b, tb := rec("w2", cs.Alt)
	if len(ta.errs)+len(tb.errs) > 0 {
		c.violation("", fmt.Sprintf("recording the two inputs (masked path %s, %s): errors %v %v", cs.Path, cs.Kind, ta.errs, tb.errs), cs)
		return
	}
	c.addSet("states", vfHash(a))
	if a != b {
		c.violation("", fmt.Sprintf("inputs differ only at the masked path %s (%s) but store different snapshots:\n%q\nvs\n%q", cs.Path, cs.Kind, vfClip(a), vfClip(b)), cs)
		return
	}
	// each passes against the other's snapshot
	_, t3 := rec("w1", cs.Alt)
	if o := t3.outcome(vfMark{}); o != "pass" {
		c.violation("", fmt.Sprintf("the second input does not pass against the first one's snapshot (masked path %s): %s %v", cs.Path, o, t3.errs), cs)
	}
	c.outcome("raw-masked-variant:pass")
}

func c16Render(api string, d *vfJ) string {
	switch api {
	case "yaml-flow":
		return d.render(1, 0) + "\n"
	case "yaml-block":
		return d.yamlBlock(0)
	case "yaml-multi":
		// a stream of two documents of the same shape (the second one after a comment): a path addresses every document
		return d.yamlBlock(0) + "---\n# second document\n" + d.yamlBlock(0)
	}
	return d.render(0, 0)
}

func c16SameTypeAlts(v *vfJ) []*vfJ {
	switch {
	case v.IsObj:
		return []*vfJ{vfJO(`"x"`, vfJS(`1`)), vfJO()}
	case v.IsArr:
		return []*vfJ{vfJA(vfJS(`9`)), vfJA()}
	case strings.HasPrefix(v.Scalar, `"`):
		// incl. strings that read like the library's own placeholders (they are ordinary values of the masked field)
		return []*vfJ{vfJS(`"other"`), vfJS(`""`), vfJS(`"a much longer string than the original value was"`), vfJS(`"é «x»"`), vfJS(`"<Any value>"`), vfJS(`"<Type:string>"`), vfJS(`"<Type:float64>"`)}
	case v.Scalar == "true" || v.Scalar == "false":
		return []*vfJ{vfJS(`true`), vfJS(`false`)}
	case v.Scalar == "null":
		return nil
	}
	return []*vfJ{vfJS(`42`), vfJS(`0.5`), vfJS(`-7`), vfJS(`42.0`), vfJS(`4.2e1`)}
}

func c16AnyAlts(v *vfJ) []*vfJ {
	// incl. values that EQUAL what the matchers put there, spelled with JSON escapes (a matcher that skips "unchanged" values keeps the spelling)
	return append(append(c16SameTypeAlts(v), vfJS(`"\u003ccustom\u003e"`), vfJS(`"\u003cAny value\u003e"`), vfJS(`"<custom>"`)), vfJS(`"str"`), vfJS(`7`), vfJS(`null`), vfJO(`"k"`, vfJS(`1`)), vfJA(vfJS(`1`), vfJS(`2`)), vfJS(`true`))
}

func c16Run(c *vfCtx, cs c16Case) {
	if strings.HasPrefix(cs.Kind, "rawdiffer") {
		c16RunRawDiffer(c, cs)
		return
	}
	if strings.HasPrefix(cs.Kind, "raw") {
		c16RunRaw(c, cs)
		return
	}
	docs := c16Docs(c.thorough())
	if cs.Doc >= len(docs) || docs[cs.Doc].render(0, 0) != cs.Text {
		c.harnessErr("C16: document %d differs from the recorded one (tier mismatch on replay?)", cs.Doc)
		return
	}
	d := docs[cs.Doc]
	var ps [][]vfJStep
	d.allPaths(nil, &ps)
	yaml := strings.HasPrefix(cs.API, "yaml")
	var paths []string
	var mpaths [][]vfJStep
	for _, mi := range cs.Mask {
		var p string
		var ok bool
		if yaml {
			p, ok = vfJPathYAML(ps[mi])
		} else {
			p, ok = vfJPathJSON(ps[mi])
		}
		if !ok {
			return
		}
		paths = append(paths, p)
		mpaths = append(mpaths, ps[mi])
	}
	c.addSet("nontrivial", vfHashJSON(cs))
	kind := cs.Kind
	if kind == "reuse" {
		kind = "any"
	}
	if kind == "type" && yaml {
		return // YAML scalar typing of go-yaml is not modelled; Any and Custom cover YAML
	}
	// matchers are built fresh for every call unless the case is "reuse"
	build := func(doc *vfJ) ([]match.JSONMatcher, []match.YAMLMatcher, bool) {
		var jm []match.JSONMatcher
		var ym []match.YAMLMatcher
		switch kind {
		case "any":
			m := match.Any(paths...)
			jm, ym = append(jm, m), append(ym, m)
		case "custom":
			for _, p := range paths {
				m := match.Custom(p, func(any) (any, error) { return "<custom>", nil })
				jm, ym = append(jm, m), append(ym, m)
			}
		case "type":
			for i, p := range paths {
				m := c15TypeMatcherJSON(c16Node(doc.get(mpaths[i])), p)
				if m == nil {
					return nil, nil, false
				}
				jm = append(jm, m)
			}
		}
		return jm, ym, true
	}
	var shared struct {
		jm []match.JSONMatcher
		ym []match.YAMLMatcher
	}
	if cs.Kind == "reuse" {
		// one matcher VALUE reused for all calls; its first use is on a document that lacks the first masked path
		m := match.Any(paths...).ErrOnMissingPath(false)
		shared.jm, shared.ym = []match.JSONMatcher{m}, []match.YAMLMatcher{m}
	}
	call := func(dir string, doc *vfJ, t *vfT) bool {
		jm, ym, ok := build(doc)
		if cs.Kind == "reuse" {
			jm, ym = shared.jm, shared.ym
		}
		if !ok {
			return false
		}
		cfg := WithConfig(Dir(dir), Filename("f"))
		text := c16Render(cs.API, doc)
		switch cs.API {
		case "json":
			cfg.MatchJSON(t, text, jm...)
		case "sjson":
			cfg.MatchStandaloneJSON(t, text, jm...)
		default:
			cfg.MatchYAML(t, text, ym...)
		}
		return true
	}
	record := func(dir string, doc *vfJ) (string, bool) {
		os.RemoveAll(dir)
		os.MkdirAll(dir, 0o755)
		vfResetState(false, "", true)
		t := &vfT{name: "TestA"}
		if !call(dir, doc, t) {
			return "", false
		}
		t.end()
		c.count("transitions", 1)
		if o := t.outcome(vfMark{}); o != "added" {
			c.outcome("record:" + o)
			return "", false
		}
		return fmt.Sprint(vfHashDir(vfSnapDir(dir))) + string(vfAllBytes(dir)), true
	}
	replay := func(dir string, doc *vfJ) (string, []string, bool) {
		vfResetState(false, "", true)
		t := &vfT{name: "TestA"}
		before := vfSnapDir(dir)
		if !call(dir, doc, t) {
			return "", nil, true
		}
		t.end()
		c.count("transitions", 1)
		unchanged := vfDirDiff(before, vfSnapDir(dir), false) == ""
		return t.outcome(vfMark{}), t.errs, unchanged
	}
	root := c.newWorld()
	w1, w2 := filepath.Join(root, "w1"), filepath.Join(root, "w2")
	if cs.Kind == "reuse" {
		// first use of the shared matcher: a document in which the first masked path is absent
		lack := d.with(mpaths[0][:len(mpaths[0])-1], vfJS(`"parent replaced"`))
		if len(mpaths[0]) == 1 {
			lack = vfJO(`"unrelated"`, vfJS(`1`))
		}
		record(filepath.Join(root, "w0"), lack)
	}
	bytesA, ok := record(w1, d)
	if !ok {
		return
	}
	c.addSet("states", vfHash(bytesA))
	// (1) variants that differ only under the mask
	for mi, mp := range mpaths {
		alts := c16AnyAlts(d.get(mp))
		if kind == "type" {
			alts = c16SameTypeAlts(d.get(mp))
		}
		for _, alt := range alts {
			v := d.with(mp, alt)
			if v.render(0, 0) == d.render(0, 0) {
				continue
			}
			bytesV, ok := record(w2, v)
			if !ok {
				c.violation("", fmt.Sprintf("variant with %s = %s (masked by %s) could not be recorded", paths[mi], alt.render(0, 0), kind), cs)
				return
			}
			if bytesV != bytesA {
				c.violation("", fmt.Sprintf("inputs differ only at the masked path %s (%s vs %s, matcher %s) but store different snapshots:\n%q\nvs\n%q",
					paths[mi], d.get(mp).render(0, 0), alt.render(0, 0), kind, vfClip(bytesA), vfClip(bytesV)), cs)
				return
			}
			if o, errs, _ := replay(w1, v); o != "pass" {
				c.violation("", fmt.Sprintf("variant differing only at the masked path %s does not pass against the recorded snapshot: %s %v", paths[mi], o, errs), cs)
				return
			}
			if o, errs, _ := replay(w2, d); o != "pass" {
				c.violation("", fmt.Sprintf("original does not pass against the snapshot of the masked-only variant (%s): %s %v", paths[mi], o, errs), cs)
				return
			}
			c.outcome("masked-variant:pass")
		}
	}
	// (2) variants that differ at an unmasked path must fail, modifying nothing
	for _, up := range ps {
		covered := false
		for _, mp := range mpaths {
			n := len(mp)
			if len(up) < n {
				n = len(up)
			}
			if fmt.Sprint(up[:n]) == fmt.Sprint(mp[:n]) {
				covered = true // under the mask, or an ancestor of a masked node
			}
		}
		if covered {
			continue
		}
		leaf := d.get(up)
		if leaf.IsArr || leaf.IsObj {
			continue
		}
		for _, alt := range c16UnmaskedAlts(leaf) {
			v := d.with(up, alt)
			o, _, unchanged := replay(w1, v)
			c.outcome("unmasked-variant:" + o)
			pu, _ := vfJPathJSON(up)
			if o != "failed" || !unchanged {
				c.violation("", fmt.Sprintf("variant differing at the UNMASKED path %s (%s -> %s; mask %v) signalled %s (directory unchanged=%v); it must fail and modify nothing", pu, leaf.Scalar, alt.Scalar, paths, o, unchanged), cs)
				return
			}
		}
	}
}

func c16UnmaskedAlts(leaf *vfJ) []*vfJ {
	switch leaf.Scalar {
	case `12345678901234567890`:
		return []*vfJ{vfJS(`12345678901234567891`), vfJS(`1`)}
	case `1.0`:
		return []*vfJ{vfJS(`1`), vfJS(`1.5`)}
	case `1e3`:
		return []*vfJ{vfJS(`1000`), vfJS(`1E3`)}
	case `null`:
		return []*vfJ{vfJS(`false`), vfJS(`"null"`)}
	}
	if strings.HasPrefix(leaf.Scalar, `"`) {
		return []*vfJ{vfJS(`"CHANGED"`), vfJS(leaf.Scalar[:len(leaf.Scalar)-1] + ` "`)}
	}
	if leaf.Scalar == "true" || leaf.Scalar == "false" {
		return []*vfJ{vfJS(`"` + leaf.Scalar + `"`)}
	}
	return []*vfJ{vfJS(`999`), vfJS(leaf.Scalar + `0`)}
}

func c16Node(j *vfJ) *vfNode {
	switch {
	case j.IsObj:
		return &vfNode{Kind: "obj"}
	case j.IsArr:
		return &vfNode{Kind: "arr"}
	case strings.HasPrefix(j.Scalar, `"`):
		return &vfNode{Kind: "scalar", Scalar: j.Scalar}
	case j.Scalar == "true" || j.Scalar == "false" || j.Scalar == "null":
		return &vfNode{Kind: "scalar", Scalar: j.Scalar}
	}
	return &vfNode{Kind: "scalar", Scalar: "num:" + j.Scalar}
}

func vfAllBytes(dir string) []byte {
	var out []byte
	obs := vfSnapDir(dir)
	var names []string
	for n := range obs {
		names = append(names, n)
	}
	for _, n := range vfSorted(names) {
		out = append(out, []byte(n+"\x00")...)
		out = append(out, obs[n].Data...)
	}
	return out
}

func init() {
	vfRegister("C16", func(c *vfCtx, emit func(c16Case)) {
		c.rule = "documents x every set of <=2 (non-nested) masked paths x {Any, Type, Custom, one reused Any value} x {MatchJSON, MatchStandaloneJSON, MatchYAML flow and block}: " +
			"every masked value replaced by each alternative the matcher accepts (other scalar/length/kind), every unmasked leaf replaced by different values incl. numbers equal as float64 but different as text"
		c16Gen(c, emit)
		c16Raw(emit)
		c16RawDiffer(emit)
	}, c16Run)
}
