//go:build verif

package snaps

import (
	"bytes"
	"fmt"
	"os"
	"path/filepath"
	"strings"
)

// C04 — update mode converges and rewrites only what differs (DESIGN §6 C04).
// Trace: pre-existing file from the model; update run; read-only run.

type c04Entry struct {
	Test string `json:"test"`
	Old  string `json:"old"`
	New  string `json:"new"` // == Old: value unchanged
}

type c04Case struct {
	API     string     `json:"api"`  // snap | yaml | json | ssnap | sjson
	Mode    string     `json:"mode"` // env (UPDATE_SNAPS=true) | opt (Update(true))
	Entries []c04Entry `json:"entries"`
	Extra   string     `json:"extra,omitempty"` // "tail": an untouched entry of another test at the end; "nofinalnl": the file does not end in a newline
}

type c04VP struct{ o, n string }

var c04Pairs = []c04VP{
	{"a", "a"}, {"x\n---\ny", "x\n---\ny"},
	{"a", "b"}, {"a", ""}, {"", "a"}, {"a", "a\nb\nc"}, {"a\nb\nc", "a"}, {"a", "---"}, {"---", "a"},
	{"a", "$1"}, {"a", "${a}%d\\1$$"}, {"a", "t\n---\n---\nb"}, {"a", "head\n\n[TestA - 2]\ntail"}, {"head\n\n[TestB - 1]\ntail", "a"}, {"t\n---\n---\nb", "a"}, {"x\n--- \ny", "x\n--- \nz"}, {"a\n-----\nb\nfoo ---\nc", "n"}, {"a", "a\n"}, {"a\n", "a"}, {"a", "[TestA - 2]"},
	{"a", "/-/-/-/"}, {"x\n/-/-/-/\ny", "x\n/-/-/-/\ny"},
}

var c04PairsThorough = []c04VP{
	{"a", "\n"}, {"\n\n", ""}, {"a", "/-/-/-/"}, {"/-/-/-/", "---"}, {"a", "\xff"}, {"a", " "}, {"a", "[TestB - 1]"}, {"a", "%!d(MISSING)"},
	{"aaaaaaaaaaaaaaaaaaaaaaaaaaaaaaaaaaaaaaaa", "b"},
}

func c04Gen(c *vfCtx, emit func(c04Case)) {
	pairs := c04Pairs
	layouts := [][]string{{"TestA"}, {"TestA", "TestA"}, {"TestA", "TestB"}, {"TestA", "TestA", "TestB"}, {"TestA", "TestB", "TestA"}, {"TestB", "TestA", "TestA"}}
	if c.thorough() {
		pairs = append(append([]c04VP{}, pairs...), c04PairsThorough...)
		layouts = append(layouts, []string{"TestA", "TestA", "TestA"}, []string{"TestA", "TestB", "TestA", "TestB"}, []string{"TestA", "TestA/s", "TestAB"})
	}
	c.bound("value_pairs", len(pairs))
	c.bound("layouts", layouts)
	var rec func(layout []string, acc []c04Entry, f func([]c04Entry))
	rec = func(layout []string, acc []c04Entry, f func([]c04Entry)) {
		if len(acc) == len(layout) {
			f(append([]c04Entry{}, acc...))
			return
		}
		ps := pairs
		if len(layout) >= 4 {
			ps = pairs[:14]
		}
		for _, p := range ps {
			rec(layout, append(acc, c04Entry{Test: layout[len(acc)], Old: p.o, New: p.n}), f)
		}
	}
	for _, mode := range []string{"env", "opt"} {
		for _, l := range layouts {
			rec(l, nil, func(es []c04Entry) {
				emit(c04Case{API: "snap", Mode: mode, Entries: es})
				if len(es) <= 2 {
					emit(c04Case{API: "snap", Mode: mode, Entries: es, Extra: "tail"})
					// the same file as an editor that trims the final newline would leave it
					emit(c04Case{API: "snap", Mode: mode, Entries: es, Extra: "nofinalnl"})
					// the same file with CR LF line ends (a checkout with eol=crlf); values holding a CR of their own are left out
					cr := false
					for _, e := range es {
						cr = cr || strings.Contains(e.Old+e.New, "\r")
					}
					if !cr {
						emit(c04Case{API: "snap", Mode: mode, Entries: es, Extra: "crlf"})
					}
				}
			})
		}
		// entries larger than reader/writer buffers: grown, shrunk, and left alone next to a rewritten neighbour
		for _, b := range vfBigValues() {
			emit(c04Case{API: "snap", Mode: mode, Entries: []c04Entry{{Test: "TestA", Old: "a", New: b}, {Test: "TestA", Old: b, New: "a"}, {Test: "TestB", Old: b, New: b}}})
			emit(c04Case{API: "snap", Mode: mode, Entries: []c04Entry{{Test: "TestA", Old: b, New: b}, {Test: "TestB", Old: "a", New: "b"}, {Test: "TestA", Old: b, New: b + "!"}}})
			emit(c04Case{API: "ssnap", Mode: mode, Entries: []c04Entry{{Test: "TestA", Old: b, New: "short"}, {Test: "TestA", Old: "short", New: b}}})
		}
		// standalone files: whole-file replacement, long -> short, CR included
		// incl. values that differ only in a final newline (a\n / a, \n / "", a\n\n / a\n) and in final blanks
		svals := []string{"a", "", "b", "a\nb\nc", "---", "a\r\n", "\xff", "$1%d", "[TestA - 1]", strings.Repeat("long", 50), "a\n", "\n", "a\n\n", "a ", "a\r"}
		for _, o := range svals {
			for _, n := range svals {
				emit(c04Case{API: "ssnap", Mode: mode, Entries: []c04Entry{{Test: "TestA", Old: o, New: n}}})
				emit(c04Case{API: "ssnap", Mode: mode, Entries: []c04Entry{{Test: "TestA/s", Old: "keep", New: "keep"}, {Test: "TestA/s", Old: o, New: n}}})
			}
		}
		ydocs := []string{"a: 1\n", "a: 2", "a: 1\n---\nb: 2\n", "k: |\n  ---\n  t\n", "# c\na: $1\n", "- x\n- y\n"}
		jdocs := []string{`{"a":1}`, `{"a":2}`, `[1,2,3]`, `{"k":"$1 %d ---"}`, `"x"`, `{"a":{"b":[1,{"c":null}]}}`}
		// different JSON texts that decode to the same float64 / Go value: the update run replaces the text all the same
		for _, api := range []string{"json", "sjson"} {
			for _, pr := range [][2]string{{`{"id":1234567890123456789}`, `{"id":1234567890123456788}`}, {`9007199254740993`, `9007199254740992`}, {`[0.1]`, `[0.1000000000000000000001]`}, {`{"n":1.0}`, `{"n":1}`}, {`{"n":1e2}`, `{"n":100}`}} {
				emit(c04Case{API: api, Mode: mode, Entries: []c04Entry{{Test: "TestA", Old: pr[0], New: pr[1]}, {Test: "TestA", Old: pr[1], New: pr[0]}}})
			}
		}
		for api, docs := range map[string][]string{"yaml": ydocs, "json": jdocs, "sjson": jdocs} {
			for _, o1 := range docs {
				for _, n1 := range docs {
					for _, o2 := range docs[:3] {
						for _, n2 := range docs[:3] {
							emit(c04Case{API: api, Mode: mode, Entries: []c04Entry{{Test: "TestA", Old: o1, New: n1}, {Test: "TestA", Old: o2, New: n2}}})
						}
					}
				}
			}
		}
	}
}

func c04Run(c *vfCtx, cs c04Case) {
	vfParseNoFinalNL = cs.Extra == "nofinalnl"
	vfParseDropCR = cs.Extra == "crlf"
	defer func() { vfParseNoFinalNL, vfParseDropCR = false, false }()
	dir := c.newWorld()
	call := func(v, upd string) vfCall { return vfCall{API: cs.API, Val: v, Upd: upd} }
	standalone := cs.API == "ssnap" || cs.API == "sjson"
	opaque := cs.API == "json" || cs.API == "sjson" // stored text is not the identity of the input
	// ---- initial content. For APIs with opaque formatting the initial
	// content is recorded by the implementation itself (differential); for the
	// others it is rendered by the model.
	vfResetState(false, "", true)
	m := vfNewModel(false, "")
	var tests []vfTestExec
	idx := map[string]int{}
	for _, e := range cs.Entries {
		if _, ok := idx[e.Test]; !ok {
			idx[e.Test] = len(tests)
			tests = append(tests, vfTestExec{Name: e.Test})
		}
	}
	if opaque {
		rec := make([]vfTestExec, len(tests))
		copy(rec, tests)
		for _, e := range cs.Entries {
			rec[idx[e.Test]].Calls = append(rec[idx[e.Test]].Calls, call(e.Old, ""))
		}
		// interleave so that file order == cs.Entries order
		live := map[string]*vfT{}
		for _, e := range cs.Entries {
			t := live[e.Test]
			if t == nil {
				t = &vfT{name: e.Test}
				live[e.Test] = t
			}
			call(e.Old, "").do(t, dir)
			if len(t.errs) > 0 {
				c.harnessErr("C04: recording %q failed: %v", e.Old, t.errs)
				return
			}
		}
		for _, t := range live {
			t.end()
		}
	} else {
		k := map[string]int{}
		for _, e := range cs.Entries {
			k[e.Test]++
			if standalone {
				m.sfiles[vfStandaloneName(vfStandaloneGeneric(e.Test, call("", "")), k[e.Test])] = e.Old
			} else {
				m.preload("f.snap", fmt.Sprintf("%s - %d", e.Test, k[e.Test]), e.Old)
			}
		}
		if cs.Extra == "tail" {
			m.preload("f.snap", "TestZ - 1", "tail\n\n")
		}
		vfWriteModelFiles(dir, m)
		if cs.Extra == "nofinalnl" {
			p := filepath.Join(dir, "f.snap")
			if b, err := os.ReadFile(p); err == nil {
				os.WriteFile(p, bytes.TrimSuffix(b, []byte("\n")), 0o644)
			}
		}
		if cs.Extra == "crlf" {
			p := filepath.Join(dir, "f.snap")
			if b, err := os.ReadFile(p); err == nil {
				os.WriteFile(p, bytes.ReplaceAll(b, []byte("\n"), []byte("\r\n")), 0o644)
			}
		}
	}
	before := vfSnapDir(dir)
	changed := 0
	nontrivial := len(cs.Entries) > 1
	for _, e := range cs.Entries {
		if e.Old != e.New {
			changed++
		}
		if vfSpecial(e.Old) || vfSpecial(e.New) || len(e.Old) != len(e.New) {
			nontrivial = true
		}
	}
	if nontrivial {
		c.addSet("nontrivial", vfHashJSON(cs))
	}
	class := func() string {
		for _, e := range cs.Entries {
			if !standalone && !opaque && c02K1(e.Old, e.New) {
				// K1: the old and the new value differ only by `---` vs `/-/-/-/` lines: stored identically, so no update happens
				return "K1-escape-not-injective"
			}
		}
		if !standalone && vfClassK2(m) {
			return "K2-header-line-in-body"
		}
		return ""
	}
	// ---- update run (a later process: fresh registries)
	env, upd := "true", ""
	if cs.Mode == "opt" {
		env, upd = "", "true"
	}
	vfResetState(false, env, true)
	m.updateVar = env
	live := map[string]*vfT{}
	for i, e := range cs.Entries {
		t := live[e.Test]
		if t == nil {
			t = &vfT{name: e.Test}
			live[e.Test] = t
		}
		cl := call(e.New, upd)
		mk := t.mark()
		ops := vfLogged(func() { cl.do(t, dir) })
		got := t.outcome(mk)
		c.count("transitions", 1)
		want := "pass"
		if e.Old != e.New {
			want = "updated"
		}
		if !opaque {
			want, _, _ = m.call(e.Test, cl, vfFormat(cl))
		}
		c.outcome("update-run:" + got)
		if got != want {
			c.violation(class(), fmt.Sprintf("update run: call %d (%q -> %q) signalled %s, expected %s %v", i+1, vfClip(e.Old), vfClip(e.New), got, want, t.errs), cs)
			return
		}
		if e.Old == e.New {
			if muts := vfMutOps(ops); len(muts) > 0 {
				c.violation(class(), fmt.Sprintf("update run: call %d whose value already matched performed file writes: %s", i+1, vfShowOps(muts)), cs)
				return
			}
		}
	}
	for _, t := range live {
		t.end()
	}
	after := vfSnapDir(dir)
	c.addSet("states", vfHashDir(after))
	if !opaque {
		if p := vfCheckDisk(dir, m); p != "" {
			c.violation(class(), "after the update run: "+p, cs)
			return
		}
	}
	if !standalone {
		// byte spans of unchanged entries survive verbatim and in order
		pre, _ := vfParse(before["f.snap"].Data)
		pos := 0
		data := after["f.snap"].Data
		if cs.Extra == "crlf" {
			// a rewrite reads lines without their CR and writes LF: "verbatim" is meant modulo the line ends here (when nothing
			// changes, the file must not be touched at all - checked below, byte for byte)
			data = bytes.ReplaceAll(data, []byte("\r\n"), []byte("\n"))
		}
		if cs.Extra == "nofinalnl" && !bytes.HasSuffix(data, []byte("\n")) {
			data = append(append([]byte{}, data...), '\n') // the last terminator has no newline after it in this file
		}
		for i, e := range pre {
			if i < len(cs.Entries) && cs.Entries[i].Old != cs.Entries[i].New {
				continue
			}
			span := []byte(fmt.Sprintf("[%s]\n%s\n---\n", e.ID, e.Body))
			j := bytes.Index(data[pos:], span)
			if j < 0 {
				c.violation(class(), fmt.Sprintf("the untouched entry [%s] (%q) is no longer present verbatim and in place after the update run; file: %q", e.ID, vfClip(e.Body), vfClip(string(data))), cs)
				return
			}
			pos += j + len(span)
		}
		if changed == 0 {
			if d := vfDirDiff(before, after, false); d != "" {
				c.violation(class(), "nothing changed, yet the update run modified the directory: "+d, cs)
				return
			}
		}
	}
	// ---- read-only run
	vfResetState(false, "", true)
	vfPlantSentinel(dir)
	snap := vfSnapDir(dir)
	live = map[string]*vfT{}
	for i, e := range cs.Entries {
		t := live[e.Test]
		if t == nil {
			t = &vfT{name: e.Test}
			live[e.Test] = t
		}
		mk := t.mark()
		ops := vfLogged(func() { call(e.New, "").do(t, dir) })
		c.count("transitions", 1)
		got := t.outcome(mk)
		c.outcome("readonly-run:" + got)
		if got != "pass" {
			c.violation(class(), fmt.Sprintf("read-only run after the update run: call %d (%q) signalled %s %v", i+1, vfClip(e.New), got, t.errs), cs)
			return
		}
		if muts := vfMutOps(ops); len(muts) > 0 {
			c.violation(class(), fmt.Sprintf("read-only run: call %d performed file writes: %s", i+1, vfShowOps(muts)), cs)
			return
		}
	}
	for _, t := range live {
		t.end()
	}
	if d := vfDirDiff(snap, vfSnapDir(dir), true); d != "" {
		c.violation(class(), "read-only run modified the directory: "+d, cs)
	}
}

func init() {
	vfRegister("C04", func(c *vfCtx, emit func(c04Case)) {
		c.rule = "every assignment of (old,new) value pairs (unchanged, shorter, longer, empty, multi-line, terminator/escape/template/header-like) to the entries of each file layout, " +
			"update enabled by UPDATE_SNAPS=true and by Update(true), all five APIs; update run then read-only run on the real code; non-trivial = distinct cases with >1 entry, a length change or a special token"
		c04Gen(c, emit)
	}, c04Run)
}
