//go:build verif

package snaps

import (
	"bytes"
	"errors"
	"fmt"
	"os"
	"path/filepath"
	"sort"
	"strings"
	"sync"
	"time"

	"github.com/gkampitakis/go-snaps/internal/verifhook/sched"
	"github.com/gkampitakis/go-snaps/match"
)

// C20 — every call has exactly one outcome and the summary adds up
// (DESIGN §6 C20).

type c20Case struct {
	Kind    string     `json:"kind"` // seq | conc
	Ops     []string   `json:"ops,omitempty"`
	Threads [][]string `json:"threads,omitempty"`
	Stale   int        `json:"stale"`          // 0 | 1 (entry) | 2 (entry + file)
	CRLF    bool       `json:"crlf,omitempty"` // the multi-entry files have CR LF line ends when the history starts
	Big     bool       `json:"big,omitempty"`  // two more stale entries in front of f.snap, 9 KB of text after them (more than a reader's first buffer)
	Sort    bool       `json:"sort,omitempty"`
	CI      bool       `json:"ci,omitempty"`
	Env     string     `json:"env"`
	Count   int        `json:"count,omitempty"` // seq: the whole history is executed Count times (what -count does), Clean sees -test.count=Count
	Fault   int        `json:"fault,omitempty"` // kind "fault": the Fault-th file-system operation of the (single) call fails
	Bound   int        `json:"bound,omitempty"`
	Sched   []int      `json:"schedule,omitempty"`
}

var c20Ops = []string{"snap:pass", "snap:added", "snap:updated", "snap:failed", "json:invalid", "json:matcher", "json:added", "yaml:pass", "yaml:matcher",
	"ssnap:added", "ssnap:failed", "sjson:updated", "skip", "skipf", "skipnow", "skipchild", "snapg:pass",
	// the snapshot has to be written but the write fails (the snapshot directory lies below a regular file)
	"wfail:snap", "wfail:ssnap", "wfail:sjson"}

// c20Want: the outcome class of an op (off CI).
func c20Want(op string, ci bool) string {
	switch op {
	case "skip", "skipf", "skipnow", "skipchild":
		return "skipped"
	}
	k := op[strings.Index(op, ":")+1:]
	switch k {
	case "pass":
		return "passed"
	case "added":
		if ci {
			return "failed"
		}
		return "added"
	case "updated":
		if ci {
			return "failed"
		}
		return "updated"
	}
	return "failed"
}

func c20Vals(api string) (old, neu string) {
	switch api {
	case "json", "sjson":
		return `{"a":1}`, `{"a":2}`
	case "yaml":
		return "a: 1\n", "a: 2\n"
	}
	// (values with lines shaped like entry headers: they are text, never items of the summary)
	return "old\n[worker - 3]\nend", "new\n[worker - 4]\n[TestGone/100%_off_%d - 1]"
}

// c20Prepare writes the pre-existing slots the ops need (recorded by the
// implementation itself in default mode, before the state is reset).
func c20Prepare(dir string, names []string, ops []string) {
	vfResetState(false, "", true)
	for i, op := range ops {
		if !strings.Contains(op, ":") {
			continue
		}
		api, k := op[:strings.Index(op, ":")], op[strings.Index(op, ":")+1:]
		old, _ := c20Vals(api)
		file := ""
		if api == "snapg" {
			api, file = "snap", "g"
		}
		switch k {
		case "pass", "updated", "failed":
			t := &vfT{name: names[i]}
			vfCall{API: api, Val: old, File: file}.do(t, dir)
			t.end()
		}
	}
}

// c20Do performs one op on the real code and returns (signals ok?, description).
func c20Do(dir string, name, op string, t *vfT) string {
	mk := t.mark()
	sk := len(t.skips)
	switch op {
	case "skip":
		Skip(t, "why")
	case "skipf":
		Skipf(t, "why %s", "x")
	case "skipnow":
		SkipNow(t)
	case "skipchild":
		// a subtest (see c20Names: named <previous test>/child) skipping itself
		Skip(t, "child")
	case "wfail:snap", "wfail:ssnap", "wfail:sjson":
		os.WriteFile(filepath.Join(dir, "blocker"), []byte("a regular file"), 0o644)
		api := op[len("wfail:"):]
		_, neu := c20Vals(api)
		vfCall{API: api, Val: neu}.do(t, filepath.Join(dir, "blocker", "sub"))
	default:
		api, k := op[:strings.Index(op, ":")], op[strings.Index(op, ":")+1:]
		old, neu := c20Vals(api)
		cl := vfCall{API: api}
		if api == "snapg" {
			cl = vfCall{API: "snap", File: "g"}
		}
		switch k {
		case "pass":
			cl.Val = old
		case "added":
			cl.Val = neu
		case "updated":
			cl.Val, cl.Upd = neu, "true"
		case "failed":
			cl.Val, cl.Upd = neu, "false"
		case "invalid":
			cl.Val = `{"a":`
		}
		switch k {
		case "matcher":
			cfg := cl.config(dir)
			if api == "yaml" {
				cfg.MatchYAML(t, "a: 1\n", match.Any("$.missing"), match.Custom("$.a", func(any) (any, error) { return nil, errors.New("boom") }))
			} else {
				cfg.MatchJSON(t, `{"a":1}`, match.Any("missing"), match.Type[string]("a"))
			}
		default:
			cl.do(t, dir)
		}
	}
	ne, nl, ns := len(t.errs)-mk.e, len(t.logs)-mk.l, len(t.skips)-sk
	switch {
	case ns == 1 && ne == 0 && nl == 1:
		return "skipped"
	case ns == 0:
		switch t.outcome(mk) {
		case "pass":
			return "passed"
		case "added", "updated", "failed":
			return t.outcome(mk)
		}
	}
	return fmt.Sprintf("not exactly one outcome (errors=%d logs=%d skips=%d: %v %v)", ne, nl, ns, t.errs[mk.e:], t.logs[mk.l:])
}

func c20Gen(c *vfCtx, emit func(c20Case)) {
	env := os.Getenv("UPDATE_SNAPS")
	c.bound("update_snaps_of_this_process", env)
	c.bound("op_alphabet", c20Ops)
	maxLen := 2
	if c.thorough() {
		maxLen = 3
	}
	c.bound("full_history_length", maxLen)
	var rec func(acc []string)
	rec = func(acc []string) {
		for _, stale := range []int{0, 2} {
			for _, srt := range []bool{false, true} {
				for _, ci := range []bool{false, true} {
					if (srt || ci) && len(acc) == maxLen && !c.thorough() && stale == 0 {
						continue
					}
					emit(c20Case{Kind: "seq", Ops: append([]string{}, acc...), Stale: stale, Sort: srt, CI: ci, Env: env})
				}
			}
		}
		if len(acc) == maxLen {
			return
		}
		for _, op := range c20Ops {
			rec(append(acc, op))
		}
	}
	rec(nil)
	// longer histories: every rotation window of length 6 over the alphabet, and each op repeated 6 times
	for i := range c20Ops {
		var w []string
		for j := 0; j < 6; j++ {
			w = append(w, c20Ops[(i+j*4)%len(c20Ops)])
		}
		for _, stale := range []int{0, 1, 2, 3, 4} {
			emit(c20Case{Kind: "seq", Ops: w, Stale: stale, Env: env})
		}
		emit(c20Case{Kind: "seq", Ops: []string{c20Ops[i]}, Stale: 4, Env: env, Sort: i%2 == 0})
		emit(c20Case{Kind: "seq", Ops: []string{c20Ops[i], "snap:pass"}, Stale: 1 + i%2, Big: true, Env: env, Sort: i%3 == 0})
		emit(c20Case{Kind: "seq", Ops: []string{c20Ops[i], "snap:pass", c20Ops[(i+7)%len(c20Ops)]}, Stale: 1 + i%3, CRLF: true, Env: env, Sort: i%2 == 0})
		if i%2 == 0 {
			// ... and with the file that only a skipping test owns (stale 4) in CR LF as well
			emit(c20Case{Kind: "seq", Ops: []string{c20Ops[i]}, Stale: 4, CRLF: true, Env: env, Sort: i%4 == 0})
		}
		emit(c20Case{Kind: "seq", Ops: []string{c20Ops[i], "snapg:pass"}, Stale: 3, Env: env})
		emit(c20Case{Kind: "seq", Ops: []string{"snapg:pass", c20Ops[i], "snap:pass"}, Stale: 3, Env: env, Sort: true})
		emit(c20Case{Kind: "seq", Ops: []string{c20Ops[i], c20Ops[i], c20Ops[i], c20Ops[i], c20Ops[i], c20Ops[i]}, Stale: 1, Env: env})
	}
	// -count 2 and 3: every history of one op, every rotation window of three, and a summary whose totals are odd
	for _, cnt := range []int{2, 3} {
		for i, op := range c20Ops {
			for _, stale := range []int{0, 2} {
				emit(c20Case{Kind: "seq", Ops: []string{op}, Stale: stale, Env: env, Count: cnt})
				emit(c20Case{Kind: "seq", Ops: []string{op, c20Ops[(i+5)%len(c20Ops)], c20Ops[(i+11)%len(c20Ops)]}, Stale: stale, Env: env, Count: cnt, CI: stale == 2 && cnt == 3})
			}
		}
	}
	// environment answers, one deviation: every single file-system operation of every kind of call fails in turn
	for _, op := range c20Ops {
		if !strings.Contains(op, ":") || strings.HasPrefix(op, "wfail:") {
			continue
		}
		for k := 1; k <= 16; k++ {
			emit(c20Case{Kind: "fault", Ops: []string{op}, Fault: k, Env: env})
			emit(c20Case{Kind: "fault", Ops: []string{op}, Fault: k, Env: env, Stale: 2}) // a bigger file around the slot
		}
	}
	// Clean under one failing file-system operation: it must not panic, and without permission to delete or sort it changes nothing
	for k := 1; k <= 24; k++ {
		for _, srt := range []bool{false, true} {
			emit(c20Case{Kind: "cleanfault", Ops: []string{"snap:pass", "ssnap:added", "snapg:pass"}, Stale: 3, Sort: srt, Fault: k, Env: env})
		}
	}
	// concurrent: ops issued from 2..3 threads, every schedule within the bound
	if env == "" || c.thorough() {
		thr := [][][]string{
			{{"snap:added", "snap:failed"}, {"skip", "snap:pass"}},
			{{"snap:updated"}, {"json:invalid", "ssnap:added"}},
			{{"skipf"}, {"skipnow"}},
			{{"json:matcher"}, {"snap:added"}, {"skip"}},
			{{"sjson:updated", "yaml:pass"}, {"snap:failed", "snap:added"}},
			{{"snap:pass"}, {"snap:pass"}, {"snap:added"}},
		}
		for _, t := range thr {
			b := 2
			if len(t) == 3 {
				b = 1
			}
			emit(c20Case{Kind: "conc", Threads: t, Stale: 1, Env: env, Bound: b})
			if c.thorough() {
				// one preemption more; unbounded only where it is known to finish (two short threads)
				tb := b + 1
				if len(t) == 2 && len(t[0])+len(t[1]) == 2 {
					tb = -1
				}
				emit(c20Case{Kind: "conc", Threads: t, Stale: 2, Env: env, Bound: tb})
			}
		}
	}
}

// names of the stale items carry format verbs: the summary prints names, it does not interpret them
const (
	c20StaleID   = "TestGone/100%_off_%d - 1"
	c20StaleFile = "stale%s_%d.snap"
)

func c20Stale(dir string, stale int) {
	if stale >= 1 {
		f, _ := os.OpenFile(filepath.Join(dir, "f.snap"), os.O_APPEND|os.O_CREATE|os.O_WRONLY, 0o644)
		f.Write(vfRender([]vfEntry{{ID: c20StaleID, Body: "gone"}}))
		f.Close()
	}
	if stale >= 2 {
		os.WriteFile(filepath.Join(dir, c20StaleFile), vfRender([]vfEntry{{ID: "TestOld - 1", Body: "x"}}), 0o644)
	}
	if stale >= 4 {
		// a multi-entry file nobody addresses, holding the snapshot of a test that calls snaps.Skip plus a stale one
		os.WriteFile(filepath.Join(dir, "skipowned.snap"), vfRender([]vfEntry{{ID: "TestSkipOwner - 1", Body: "kept: its test skipped"}, {ID: "TestGoneToo - 1", Body: "stale"}}), 0o644)
	}
	if stale >= 3 {
		// the SAME obsolete id in a second addressed file (g.snap, addressed by the op "snap2:pass")
		f, _ := os.OpenFile(filepath.Join(dir, "g.snap"), os.O_APPEND|os.O_CREATE|os.O_WRONLY, 0o644)
		f.Write(vfRender([]vfEntry{{ID: c20StaleID, Body: "gone too"}}))
		f.Close()
	}
}

var c20BigIDs = []string{"TestGoneEarly - 1", "TestGoneEarly/with_a_longer_name_than_most - 2", "TestGoneBig - 1"}

// c20BigFront puts three stale entries in front of f.snap; the last one is 9 KB of short lines, so whoever reads the file
// line by line has refilled its buffer several times before it reaches the end.
func c20BigFront(dir string) {
	p := filepath.Join(dir, "f.snap")
	rest, _ := os.ReadFile(p)
	var big strings.Builder
	for i := 0; big.Len() < 9000; i++ {
		fmt.Fprintf(&big, "line %04d of a long report, some words to fill it up\n", i)
	}
	front := vfRender([]vfEntry{{ID: c20BigIDs[0], Body: "early"}, {ID: c20BigIDs[1], Body: "early 2"}, {ID: c20BigIDs[2], Body: strings.TrimSuffix(big.String(), "\n")}})
	os.WriteFile(p, append(front, rest...), 0o644)
}

// c20CheckSummary compares the printed summary with the model's totals.
func c20CheckSummary(out string, want map[string]int, staleTests, staleFiles []string, removed bool) string {
	s := vfParseSummary(out)
	total := 0
	for _, v := range want {
		total += v
	}
	if total == 0 && len(staleTests)+len(staleFiles) == 0 {
		if strings.TrimSpace(out) != "" {
			return fmt.Sprintf("no call, no skip, nothing obsolete: Clean must print nothing, printed %q", vfClip(out))
		}
		return ""
	}
	if !s.Present {
		return fmt.Sprintf("no Snapshot Summary printed (output %q)", vfClip(out))
	}
	var probs []string
	for _, k := range []string{"passed", "failed", "added", "updated", "skipped"} {
		if s.Counts[k] != want[k] {
			probs = append(probs, fmt.Sprintf("%s: summary shows %d, %d calls had that outcome", k, s.Counts[k], want[k]))
		}
	}
	var gotFiles []string
	for _, f := range s.ObsFiles {
		gotFiles = append(gotFiles, filepath.Base(f))
	}
	sort.Strings(gotFiles)
	if vfStrs(s.ObsTests) != vfStrs(vfSorted(staleTests)) {
		probs = append(probs, fmt.Sprintf("obsolete tests listed %v, judged obsolete %v", s.ObsTests, staleTests))
	}
	if vfStrs(gotFiles) != vfStrs(vfSorted(staleFiles)) {
		probs = append(probs, fmt.Sprintf("obsolete files listed %v, judged obsolete %v", gotFiles, staleFiles))
	}
	if n, ok := s.Counts["list_test"]; ok && n != len(s.ObsTests) {
		probs = append(probs, fmt.Sprintf("header says %d obsolete tests, %d listed", n, len(s.ObsTests)))
	}
	if n, ok := s.Counts["list_file"]; ok && n != len(s.ObsFiles) {
		probs = append(probs, fmt.Sprintf("header says %d obsolete files, %d listed", n, len(s.ObsFiles)))
	}
	if len(staleTests)+len(staleFiles) > 0 && s.Removed != removed {
		probs = append(probs, fmt.Sprintf("lists are titled removed=%v, deletion enabled=%v", s.Removed, removed))
	}
	return strings.Join(probs, "; ")
}

func c20Names(ops []string, prefix string) []string {
	var n []string
	for i, op := range ops {
		if op == "skipchild" && i > 0 {
			n = append(n, n[i-1]+"/child")
			continue
		}
		n = append(n, fmt.Sprintf("Test%s%d", prefix, i))
	}
	return n
}

func c20Run(c *vfCtx, cs c20Case) {
	if cs.Env != os.Getenv("UPDATE_SNAPS") {
		c.harnessErr("C20: case recorded with UPDATE_SNAPS=%q, process has %q", cs.Env, os.Getenv("UPDATE_SNAPS"))
		return
	}
	if cs.Kind == "conc" {
		c20Conc(c, cs)
		return
	}
	if cs.Kind == "fault" {
		c20Fault(c, cs)
		return
	}
	if cs.Kind == "cleanfault" {
		c20CleanFault(c, cs)
		return
	}
	c.addSet("nontrivial", vfHashJSON(cs))
	dir := c.newWorld()
	names := c20Names(cs.Ops, "Op")
	c20Prepare(dir, names, cs.Ops)
	c20Stale(dir, cs.Stale)
	if cs.Big {
		c20BigFront(dir)
	}
	if cs.CRLF {
		for _, f := range []string{"f.snap", "g.snap", c20StaleFile, "skipowned.snap"} {
			if b, err := os.ReadFile(filepath.Join(dir, f)); err == nil {
				os.WriteFile(filepath.Join(dir, f), bytes.ReplaceAll(b, []byte("\n"), []byte("\r\n")), 0o644)
			}
		}
	}
	vfResetState(cs.CI, cs.Env, true)
	want := map[string]int{}
	multi := false
	var skipped []string
	count := cs.Count
	if count == 0 {
		count = 1
	}
	for exec := 1; exec <= count; exec++ {
		for i, op := range cs.Ops {
			t := &vfT{name: names[i]}
			got := c20Do(dir, names[i], op, t)
			t.end()
			c.count("transitions", 1)
			w := c20Want(op, cs.CI)
			if exec > 1 && (w == "added" || w == "updated") {
				w = "passed" // the first execution stored this very value
			}
			c.outcome(got)
			if got != w {
				c.violation("", fmt.Sprintf("execution %d, op %d (%s): %s, expected exactly one outcome: %s", exec, i+1, op, got, w), cs)
				return
			}
			want[w]++
			if w == "skipped" {
				skipped = append(skipped, names[i])
			} else if strings.HasPrefix(op, "snap:") || strings.HasPrefix(op, "json:") || strings.HasPrefix(op, "yaml:") {
				multi = true
			}
		}
	}
	visited := multi
	for _, op := range cs.Ops {
		if strings.HasPrefix(op, "ssnap:") || strings.HasPrefix(op, "sjson:") {
			visited = true
		}
	}
	multiF, multiG := false, false
	for _, op := range cs.Ops {
		if strings.HasPrefix(op, "snapg:") {
			multiG = true
		} else if strings.HasPrefix(op, "snap:") || strings.HasPrefix(op, "json:") || strings.HasPrefix(op, "yaml:") {
			multiF = true
		}
	}
	visited = visited || multiG
	var staleT, staleF []string
	if multiF && cs.Stale >= 1 {
		staleT = append(staleT, c20StaleID)
	}
	if multiF && cs.Big {
		staleT = append(staleT, c20BigIDs...)
	}
	if !multiF && visited && cs.Stale >= 1 {
		staleF = append(staleF, "f.snap") // nobody addressed the multi-entry file in this run
	}
	if visited && cs.Stale >= 2 {
		staleF = append(staleF, c20StaleFile)
	}
	if cs.Stale >= 3 {
		if multiG {
			staleT = append(staleT, c20StaleID) // the same id, obsolete in a second file: listed twice
		} else if visited {
			staleF = append(staleF, "g.snap")
		}
	}
	if cs.Stale >= 4 {
		ts := &vfT{name: "TestSkipOwner"}
		Skip(ts, "owner of skipowned.snap")
		ts.end()
		want["skipped"]++
		if visited {
			staleT = append(staleT, "TestGoneToo - 1")
		}
	}
	out := vfClean("", count, cs.Sort)
	c.count("transitions", 1)
	c.addSet("states", vfHash(out))
	removed := !cs.CI && (cs.Env == "true" || cs.Env == "clean")
	if p := c20CheckSummary(out, want, staleT, staleF, removed); p != "" {
		c.violation("", fmt.Sprintf("history %v then Clean: %s", cs.Ops, p), cs)
	}
}

// c20Fault: one call, during which the k-th file-system operation fails with an I/O error. Whatever the environment answers,
// the call ends in exactly one outcome and the counters record exactly that outcome (whether an `added`/`updated` claim made under
// an I/O error is true is observed and counted, not judged: the property does not speak of it).
func c20Fault(c *vfCtx, cs c20Case) {
	op := cs.Ops[0]
	dir := c.newWorld()
	names := c20Names(cs.Ops, "Op")
	c20Prepare(dir, names, cs.Ops)
	c20Stale(dir, cs.Stale)
	vfResetState(false, cs.Env, true)
	t := &vfT{name: names[0]}
	sched.ArmFault(cs.Fault)
	got := c20Do(dir, names[0], op, t)
	seen, hit := sched.Disarm()
	t.end()
	c.count("transitions", 1)
	if hit == "" {
		c.outcome(fmt.Sprintf("call has only %d operations", seen))
		return // the call performs fewer than Fault operations: nothing was injected
	}
	c.addSet("nontrivial", vfHashJSON(cs))
	c.addSet("states", vfHash(op, hit, got, fmt.Sprint(vfHashDir(vfSnapDir(dir)))))
	c.outcome("fault:" + got)
	c.count("faults_injected", 1)
	ev := map[string]uint8{"passed": passed, "added": added, "updated": updated, "failed": erred}
	code, ok := ev[got]
	if !ok {
		c.violation("", fmt.Sprintf("%s with %s failing (operation %d): %s", op, hit, cs.Fault, got), cs)
		return
	}
	total := 0
	for _, n := range testEvents.items {
		total += n
	}
	if total != 1 || testEvents.items[code] != 1 {
		c.violation("", fmt.Sprintf("%s with %s failing (operation %d): the call signalled %s to the test, the outcome counters hold %v", op, hit, cs.Fault, got, testEvents.items), cs)
		return
	}
	if got == "added" || got == "updated" {
		// the call claims the value is stored: a later run must replay it
		api, k := op[:strings.Index(op, ":")], op[strings.Index(op, ":")+1:]
		val, neu := c20Vals(api)
		if k != "pass" {
			val = neu // the value the call was given (c20Do)
		}
		cl := vfCall{API: api, Val: val}
		if api == "snapg" {
			cl = vfCall{API: "snap", Val: val, File: "g"}
		}
		vfResetState(true, "", true)
		t2 := &vfT{name: names[0]}
		mk := t2.mark()
		cl.do(t2, dir)
		t2.end()
		if o := t2.outcome(mk); o != "pass" {
			// observed, not judged: C20 speaks of the number of outcomes, not of their truth under I/O errors. On the pinned tree a
			// read error of the snapshot file is taken for "no snapshot yet": a duplicate entry is appended and `added` is signalled.
			c.count("observed_claim_does_not_replay_after_io_error", 1)
			c.outcome(fmt.Sprintf("observed: %s after %s failing, value does not replay", got, hit))
		}
	}
}

func c20CleanFault(c *vfCtx, cs c20Case) {
	dir := c.newWorld()
	names := c20Names(cs.Ops, "Op")
	c20Prepare(dir, names, cs.Ops)
	c20Stale(dir, cs.Stale)
	vfResetState(false, cs.Env, true)
	for i, op := range cs.Ops {
		t := &vfT{name: names[i]}
		c20Do(dir, names[i], op, t)
		t.end()
	}
	before := vfSnapDir(dir)
	var panicked any
	hit := ""
	func() {
		defer func() {
			panicked = recover()
			_, hit = sched.Disarm()
		}()
		sched.ArmFault(cs.Fault)
		vfClean("", 1, cs.Sort)
	}()
	c.count("transitions", 1)
	if hit == "" && panicked == nil {
		c.outcome("clean performs fewer operations")
		return
	}
	c.addSet("nontrivial", vfHashJSON(cs))
	c.count("faults_injected", 1)
	c.addSet("states", vfHash("cleanfault", hit, fmt.Sprint(vfHashDir(vfSnapDir(dir)))))
	if panicked != nil {
		c.violation("", fmt.Sprintf("Clean panicked when %s failed (operation %d): %v", hit, cs.Fault, panicked), cs)
		return
	}
	mayWrite := cs.Env == "true" || cs.Env == "clean" || cs.Sort
	if d := vfDirDiff(before, vfSnapDir(dir), true); d != "" && !mayWrite {
		c.violation("", fmt.Sprintf("report-only Clean with %s failing (operation %d) changed the directory: %s", hit, cs.Fault, d), cs)
	}
	c.outcome("cleanfault:" + hit[:strings.Index(hit, "(")])
}

func c20Conc(c *vfCtx, cs c20Case) {
	var dir string
	var outs [][]string
	var all []string
	for _, t := range cs.Threads {
		all = append(all, t...)
	}
	mk := func() []func() {
		dir = filepath.Join(c.scratch, "e2w")
		os.RemoveAll(dir)
		os.MkdirAll(dir, 0o755)
		outs = nil
		// prepare all slots
		for ti, ops := range cs.Threads {
			c20Prepare(dir, c20Names(ops, fmt.Sprintf("T%dOp", ti)), ops)
		}
		c20Stale(dir, cs.Stale)
		vfResetState(false, cs.Env, true)
		var bodies []func()
		for ti, ops := range cs.Threads {
			ti, ops := ti, ops
			names := c20Names(ops, fmt.Sprintf("T%dOp", ti))
			outs = append(outs, make([]string, len(ops)))
			bodies = append(bodies, func() {
				for i, op := range ops {
					t := &vfT{name: names[i]}
					outs[ti][i] = c20Do(dir, names[i], op, t)
					t.end()
				}
			})
		}
		return bodies
	}
	sched.MemKey = vfMemKey
	sched.FSKey = func() uint64 { return vfHashDir(vfSnapDir(dir)) }
	want := map[string]int{}
	multi := false
	for _, op := range all {
		want[c20Want(op, false)]++
		if strings.HasPrefix(op, "snap:") || strings.HasPrefix(op, "json:") || strings.HasPrefix(op, "yaml:") {
			multi = true
		}
	}
	var staleT, staleF []string
	if multi && cs.Stale >= 1 {
		staleT = []string{c20StaleID}
	}
	if multi && cs.Stale >= 2 {
		staleF = []string{c20StaleFile}
	}
	removed := cs.Env == "true" || cs.Env == "clean"
	check := func(x *sched.Exec) string {
		if x.Deadlock || len(x.Panics) > 0 {
			return fmt.Sprintf("deadlock=%v panics=%v", x.Deadlock, x.Panics)
		}
		for ti, ops := range cs.Threads {
			for i, op := range ops {
				if w := c20Want(op, false); outs[ti][i] != w {
					return fmt.Sprintf("thread %d op %s: %s, expected %s", ti, op, outs[ti][i], w)
				}
			}
		}
		return c20CheckSummary(vfClean("", 1, false), want, staleT, staleF, removed)
	}
	if cs.Sched != nil {
		x := sched.Run(cs.Sched, mk(), nil)
		if p := check(x); p != "" {
			c.violation("", fmt.Sprintf("schedule %v: %s\n steps: %s", cs.Sched, p, strings.Join(x.Trace, " ")), cs)
		}
		return
	}
	if !multi && len(staleT)+len(staleF) == 0 && cs.Stale > 0 {
		// no multi-entry call: the directory may still be visited through standalone calls; keep the oracle simple
		for _, op := range all {
			if strings.HasPrefix(op, "ssnap:") || strings.HasPrefix(op, "sjson:") {
				staleF = []string{"f.snap"}
				if cs.Stale >= 2 {
					staleF = append(staleF, c20StaleFile)
				}
			}
		}
	}
	c.addSet("nontrivial", vfHashJSON(cs))
	reported := false
	stop := func() bool { return !c.deadline.IsZero() && time.Now().After(c.deadline) }
	st := sched.ExploreUntil(cs.Bound, nil, 0, stop, mk, func(x *sched.Exec) bool {
		c.count("transitions", int64(len(x.Points)))
		if p := check(x); p != "" {
			if !reported {
				v := cs
				v.Sched = append([]int{}, x.Choices...)
				c.violation("", fmt.Sprintf("threads %v, schedule with %d preemption(s): %s\n steps: %s", cs.Threads, x.Preemptions(len(x.Points)), p, strings.Join(x.Trace, " ")), v)
				reported = true
			} else {
				c.violCounts[""]++
			}
		}
		return true
	})
	c.count("schedules", int64(st.Executions))
	if st.Capped {
		c.cap("deadline")
		c.stopped = true
	}
	c.addSet("states", vfHash(fmt.Sprint(cs.Threads), fmt.Sprint(st.Executions)))
}

func c20Race(c *vfCtx) {
	reps := 50
	if c.thorough() {
		reps = 300
	}
	for r := 0; r < reps; r++ {
		dir := filepath.Join(c.scratch, "racew")
		os.RemoveAll(dir)
		os.MkdirAll(dir, 0o755)
		var wg sync.WaitGroup
		thr := 4
		var namesAll [][]string
		for ti := 0; ti < thr; ti++ {
			namesAll = append(namesAll, c20Names(c20Ops, fmt.Sprintf("R%dOp", ti)))
			c20Prepare(dir, namesAll[ti], c20Ops)
		}
		vfResetState(false, "", true)
		start := make(chan struct{})
		for ti := 0; ti < thr; ti++ {
			wg.Add(1)
			ti := ti
			go func() {
				defer wg.Done()
				<-start
				for i, op := range c20Ops {
					t := &vfT{name: namesAll[ti][i]}
					c20Do(dir, namesAll[ti][i], op, t)
					t.end()
				}
			}()
		}
		close(start)
		wg.Wait()
		out := vfClean("", 1, false)
		want := map[string]int{}
		for _, op := range c20Ops {
			want[c20Want(op, false)] += thr
		}
		if p := c20CheckSummary(out, want, nil, nil, false); p != "" {
			c.violation("", "free-running threads: "+p, map[string]any{"race_pass": true})
		}
		c.count("race_runs", 1)
	}
}

func init() {
	vfRegister("C20", func(c *vfCtx, emit func(c20Case)) {
		c.rule = "every history of <=2 (quick) / <=3 (thorough) operations over 15 op kinds (each API x pass/added/updated/failed by mismatch, invalid input or matcher error; Skip/Skipf/SkipNow), " +
			"plus length-6 windows and repetitions, then Clean with 0..2 obsolete items x sort x CI in each UPDATE_SNAPS process; the same ops from 2..3 threads under every schedule within the bound"
		c.assume("concurrent part: same scheduler assumptions as C06")
		c20Gen(c, emit)
	}, c20Run)
	vfDrivers["C20"].race = c20Race
}
