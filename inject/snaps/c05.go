//go:build verif

package snaps

import (
	"bytes"
	"fmt"
	"os"
	"path/filepath"
	"strings"
)

// C05 — write permissions follow the mode table (DESIGN §6 C05). The table is
// finite and enumerated completely: 360 call cells + 128 Clean cells. The
// UPDATE_SNAPS dimension is the REAL environment of this process (vcheck starts
// one process per value), which also binds the init-time expressions.

type c05Case struct {
	Kind      string `json:"kind"` // call | clean | emptydir | nodir
	CI        bool   `json:"ci"`
	Env       string `json:"env"`           // UPDATE_SNAPS of this process
	Opt       string `json:"opt,omitempty"` // Update option: "" | true | false
	API       string `json:"api,omitempty"`
	Slot      string `json:"slot,omitempty"`  // missing | equal | different | relaid
	Sort      bool   `json:"sort,omitempty"`  // Clean: CleanOpts.Sort
	Stale     string `json:"stale,omitempty"` // Clean: none | entry | file | both
	Sorted    bool   `json:"sorted,omitempty"`
	Color     bool   `json:"color,omitempty"`
	Two       bool   `json:"two,omitempty"`       // call cells: an unrelated entry precedes the slot
	Empty     bool   `json:"empty,omitempty"`     // call cells: the stored value is the empty text
	HeaderVal bool   `json:"headerval,omitempty"` // call cells: the stored value consists of lines shaped like an entry header and a near-terminator
	Again     bool   `json:"again,omitempty"`     // call cells (slot missing): the test is executed a second time in the same process with another value
	CRLF      bool   `json:"crlf,omitempty"`      // call cells: the pre-existing multi-entry file has CR LF line ends
	AfterFail bool   `json:"afterfail,omitempty"` // call cells: the same test made two failing calls (invalid JSON, mismatch) into another file first
}

func c05Env() string { return os.Getenv("UPDATE_SNAPS") }

func c05Gen(c *vfCtx, emit func(c05Case)) {
	env := c05Env()
	c.bound("update_snaps_of_this_process", env)
	for _, ci := range []bool{false, true} {
		for _, opt := range []string{"", "true", "false"} {
			for _, api := range []string{"snap", "json", "yaml", "ssnap", "sjson"} {
				if api == "json" || api == "sjson" {
					// state "different" reached by re-laying-out the stored text (same document, other whitespace / member order): still a different text
					emit(c05Case{Kind: "call", CI: ci, Env: env, Opt: opt, API: api, Slot: "relaid"})
				}
				for _, slot := range []string{"missing", "equal", "different"} {
					emit(c05Case{Kind: "call", CI: ci, Env: env, Opt: opt, API: api, Slot: slot})
					if (api == "snap" || api == "ssnap") && slot != "missing" {
						// a stored value that is the empty text is still a stored value
						emit(c05Case{Kind: "call", CI: ci, Env: env, Opt: opt, API: api, Slot: slot, Empty: true})
						// ... and so is one that looks like an entry header or a terminator
						emit(c05Case{Kind: "call", CI: ci, Env: env, Opt: opt, API: api, Slot: slot, HeaderVal: true})
					}
					if !c.thorough() && (api == "snap" || api == "json" || api == "yaml") {
						emit(c05Case{Kind: "call", CI: ci, Env: env, Opt: opt, API: api, Slot: slot, Two: true})
					}
					// the same cell after an earlier call of the SAME test has failed (into another file): permissions do not depend on the test's history
					emit(c05Case{Kind: "call", CI: ci, Env: env, Opt: opt, API: api, Slot: slot, AfterFail: true})
					if slot != "missing" && api != "ssnap" && api != "sjson" {
						emit(c05Case{Kind: "call", CI: ci, Env: env, Opt: opt, API: api, Slot: slot, CRLF: true, Two: true})
					}
					if slot == "missing" {
						// the file does not exist when the run starts; the same test runs twice (-count 2): the second execution meets what the first left
						emit(c05Case{Kind: "call", CI: ci, Env: env, Opt: opt, API: api, Slot: slot, Again: true})
					}
					if c.thorough() {
						emit(c05Case{Kind: "call", CI: ci, Env: env, Opt: opt, API: api, Slot: slot, Two: true, Color: true})
						emit(c05Case{Kind: "call", CI: ci, Env: env, Opt: opt, API: api, Slot: slot, Two: true})
						emit(c05Case{Kind: "call", CI: ci, Env: env, Opt: opt, API: api, Slot: slot, Color: true})
					}
				}
			}
		}
		// a snapshot directory (nested) that does not exist yet: a call that may not create leaves no trace, not even a directory
		for _, opt := range []string{"", "true", "false"} {
			for _, api := range []string{"snap", "json", "yaml", "ssnap", "sjson"} {
				emit(c05Case{Kind: "nodir", CI: ci, Env: env, Opt: opt, API: api})
			}
		}
		// an existing but EMPTY snapshot directory that a call addressed without being allowed to create anything: no mode deletes it
		for _, sort := range []bool{false, true} {
			for _, opt := range []string{"false", ""} {
				emit(c05Case{Kind: "emptydir", CI: ci, Env: env, Sort: sort, Opt: opt})
			}
		}
		for _, sort := range []bool{false, true} {
			for _, stale := range []string{"none", "entry", "file", "both"} {
				for _, sorted := range []bool{true, false} {
					emit(c05Case{Kind: "clean", CI: ci, Env: env, Sort: sort, Stale: stale, Sorted: sorted})
					// the Update option of the calls that precede Clean governs those calls only, never what Clean may do
					emit(c05Case{Kind: "clean", CI: ci, Env: env, Sort: sort, Stale: stale, Sorted: sorted, Opt: "true"})
					emit(c05Case{Kind: "clean", CI: ci, Env: env, Sort: sort, Stale: stale, Sorted: sorted, Opt: "false"})
				}
			}
		}
	}
}

func c05Vals(api string) (old, neu string) {
	switch api {
	case "json", "sjson":
		return `{"a":1}`, `{"a":2}`
	case "yaml":
		return "a: 1\n", "a: 2\n"
	}
	return "old", "new"
}

func c05Run(c *vfCtx, cs c05Case) {
	if cs.Env != c05Env() {
		// a replay must run under the recorded environment
		c.harnessErr("C05: case recorded with UPDATE_SNAPS=%q but this process has %q (replay with that environment)", cs.Env, c05Env())
		return
	}
	c.addSet("nontrivial", vfHashJSON(cs))
	if cs.Kind == "clean" {
		c05Clean(c, cs)
		return
	}
	if cs.Kind == "emptydir" {
		c05EmptyDir(c, cs)
		return
	}
	if cs.Kind == "nodir" {
		c05NoDir(c, cs)
		return
	}
	dir := c.newWorld()
	old, neu := c05Vals(cs.API)
	if cs.Empty {
		old = ""
		if cs.Slot == "equal" {
			neu = ""
		}
	}
	if cs.HeaderVal {
		old = "[retry - 2]\n--- \n[TestA - 9]"
		if cs.Slot == "equal" {
			neu = old
		}
	}
	cl := vfCall{API: cs.API, Val: neu, Upd: cs.Opt}
	// prepare the slot with the implementation itself (default mode)
	vfResetState(false, "", true)
	if cs.Two && !cl.standalone() {
		t := &vfT{name: "TestZ"}
		// an unrelated entry whose VALUE contains the addressed slot's header as a line (and a terminator look-alike)
		vfCall{API: "snap", Val: "unrelated\n---\n[TestA - 1]\nentry"}.do(t, dir)
		t.end()
	}
	if cs.Slot != "missing" {
		v := old
		if cs.Slot == "equal" || cs.Slot == "relaid" {
			v = neu
		}
		t := &vfT{name: "TestA"}
		vfCall{API: cs.API, Val: v}.do(t, dir)
		t.end()
		if len(t.errs) > 0 {
			c.harnessErr("C05 setup failed: %v", t.errs)
			return
		}
	}
	if cs.Slot == "relaid" {
		relaid := "{\"a\":   2}"
		if cs.API == "sjson" {
			if err := os.WriteFile(filepath.Join(dir, "TestA_1.snap.json"), []byte(relaid), 0o644); err != nil {
				panic(err)
			}
		} else {
			es, err := vfParse(vfSnapDir(dir)["f.snap"].Data)
			if err != nil || len(es) == 0 {
				c.harnessErr("C05 relaid setup: %v", err)
				return
			}
			es[len(es)-1].Body = relaid
			os.WriteFile(filepath.Join(dir, "f.snap"), vfRender(es), 0o644)
		}
	}
	if cs.CRLF {
		p := filepath.Join(dir, "f.snap")
		if b, err := os.ReadFile(p); err == nil {
			os.WriteFile(p, bytes.ReplaceAll(b, []byte("\n"), []byte("\r\n")), 0o644)
		}
	}
	if cs.AfterFail {
		tg := &vfT{name: "TestA"}
		vfCall{API: "snap", Val: "g1", File: "g"}.do(tg, dir)
		vfCall{API: "snap", Val: "g2", File: "g"}.do(tg, dir)
		tg.end()
	}
	vfPlantSentinel(dir)
	before := vfSnapDir(dir)
	// the cell
	vfResetState(cs.CI, cs.Env, !cs.Color)
	m := vfNewModel(cs.CI, cs.Env)
	t := &vfT{name: "TestA"}
	if cs.AfterFail {
		// (the other file g.snap was prepared below with a value these calls do not match)
		vfCall{API: "json", Val: `{"a":`, File: "g"}.do(t, dir)
		vfCall{API: "snap", Val: "does not match", File: "g", Upd: "false"}.do(t, dir)
		if len(t.errs) != 2 {
			c.harnessErr("C05 afterfail: the two preparatory calls did not both fail: %v", t.errs)
			return
		}
		before = vfSnapDir(dir)
	}
	mk := t.mark()
	ops := vfLogged(func() { cl.do(t, dir) })
	t.end()
	c.count("transitions", 1)
	got := t.outcome(mk)
	// the model's table
	var want string
	mayWrite := false
	switch cs.Slot {
	case "missing":
		want = "failed"
		if m.canCreate(cs.Opt) {
			want, mayWrite = "added", true
		}
	case "equal":
		want = "pass"
	case "different", "relaid":
		want = "failed"
		if m.canUpdate(cs.Opt) {
			want, mayWrite = "updated", true
		}
	}
	c.outcome(fmt.Sprintf("%s:%s", cs.Slot, got))
	after := vfSnapDir(dir)
	c.addSet("states", vfHash(fmt.Sprint(vfHashDir(after)), fmt.Sprint(cs)))
	if got != want {
		c.violation("", fmt.Sprintf("cell %+v: the call signalled %s, the mode table says %s %v", cs, got, want, t.errs), cs)
		return
	}
	if !mayWrite {
		if muts := vfMutOps(ops); len(muts) > 0 {
			c.violation("", fmt.Sprintf("cell %+v: the call may not write but performed %s", cs, vfShowOps(muts)), cs)
			return
		}
		if d := vfDirDiff(before, after, true); d != "" {
			c.violation("", fmt.Sprintf("cell %+v: the call may not write but the directory changed: %s", cs, d), cs)
		}
		return
	}
	if cs.Again && want == "added" {
		// second execution of the same test in the same process, with the OLD value: the slot exists now and holds the new one
		t1 := &vfT{name: "TestA"}
		mk1 := t1.mark()
		ops1 := vfLogged(func() { vfCall{API: cs.API, Val: old, Upd: cs.Opt}.do(t1, dir) })
		t1.end()
		c.count("transitions", 1)
		want1 := "failed"
		if m.canUpdate(cs.Opt) {
			want1 = "updated"
		}
		if got1 := t1.outcome(mk1); got1 != want1 {
			c.violation("", fmt.Sprintf("cell %+v: second execution of the test in the same process with another value signalled %s, the mode table says %s %v", cs, got1, want1, t1.errs), cs)
			return
		}
		if want1 == "failed" {
			if muts := vfMutOps(ops1); len(muts) > 0 {
				c.violation("", fmt.Sprintf("cell %+v: the second execution may not write but performed %s", cs, vfShowOps(muts)), cs)
			}
		} else {
			neu = old
		}
	}
	// allowed write: a following read-only run replays the new value
	vfResetState(true, "", true)
	t2 := &vfT{name: "TestA"}
	mk2 := t2.mark()
	vfCall{API: cs.API, Val: neu}.do(t2, dir)
	t2.end()
	if o := t2.outcome(mk2); o != "pass" {
		c.violation("", fmt.Sprintf("cell %+v: after the %s the new value does not replay: %s %v", cs, want, o, t2.errs), cs)
	}
}

// c05NoDir: the addressed snapshot directory (two levels) does not exist. Where the mode allows creation the call adds the snapshot;
// where it does not, the call fails and the tree is as before: no file, no directory, no mutating file-system call.
func c05NoDir(c *vfCtx, cs c05Case) {
	root := c.newWorld()
	target := filepath.Join(root, "pkg", "__snapshots__")
	_, neu := c05Vals(cs.API)
	vfResetState(cs.CI, cs.Env, true)
	m := vfNewModel(cs.CI, cs.Env)
	t := &vfT{name: "TestA"}
	mk := t.mark()
	ops := vfLogged(func() { vfCall{API: cs.API, Val: neu, Upd: cs.Opt}.do(t, target) })
	t.end()
	c.count("transitions", 1)
	got := t.outcome(mk)
	want := "failed"
	if m.canCreate(cs.Opt) {
		want = "added"
	}
	c.outcome("nodir:" + got)
	if got != want {
		c.violation("", fmt.Sprintf("cell %+v: the call signalled %s, the mode table says %s %v", cs, got, want, t.errs), cs)
		return
	}
	entries, _ := os.ReadDir(root)
	c.addSet("states", vfHash(fmt.Sprint(len(entries)), fmt.Sprint(cs)))
	if want == "failed" {
		if muts := vfMutOps(ops); len(muts) > 0 {
			c.violation("", fmt.Sprintf("cell %+v: the call may not write but performed %s", cs, vfShowOps(muts)), cs)
			return
		}
		if len(entries) != 0 {
			c.violation("", fmt.Sprintf("cell %+v: the call may not write, the snapshot directory did not exist, and afterwards the tree holds %q", cs, entries[0].Name()), cs)
		}
		return
	}
	vfResetState(true, "", true)
	t2 := &vfT{name: "TestA"}
	mk2 := t2.mark()
	vfCall{API: cs.API, Val: neu}.do(t2, target)
	t2.end()
	if o := t2.outcome(mk2); o != "pass" {
		c.violation("", fmt.Sprintf("cell %+v: after the snapshot was added in a new directory it does not replay: %s %v", cs, o, t2.errs), cs)
	}
}

// c05EmptyDir: directories are part of the observable state. Two empty snapshot directories (one nested) are addressed by calls;
// where the mode forbids creation the calls fail and create nothing, and Clean - in whatever mode - removes no directory.
func c05EmptyDir(c *vfCtx, cs c05Case) {
	root := c.newWorld()
	d1, d2 := filepath.Join(root, "empty"), filepath.Join(root, "nested", "empty")
	os.MkdirAll(d1, 0o755)
	os.MkdirAll(d2, 0o755)
	vfResetState(cs.CI, cs.Env, true)
	m := vfNewModel(cs.CI, cs.Env)
	created := false
	for i, d := range []string{d1, d2} {
		for _, api := range []string{"snap", "ssnap", "sjson"} {
			t := &vfT{name: fmt.Sprintf("TestE%d", i)}
			mk := t.mark()
			vfCall{API: api, Val: "1", Upd: cs.Opt}.do(t, d)
			t.end()
			c.count("transitions", 1)
			want := "failed"
			if m.canCreate(cs.Opt) {
				want, created = "added", true
			}
			if got := t.outcome(mk); got != want {
				c.violation("", fmt.Sprintf("cell %+v: %s into an empty directory signalled %s, the mode table says %s", cs, api, got, want), cs)
				return
			}
		}
	}
	before := vfSnapDir(root)
	vfClean("", 1, cs.Sort)
	c.count("transitions", 1)
	after := vfSnapDir(root)
	c.addSet("states", vfHash(fmt.Sprint(vfHashDir(after)), fmt.Sprint(cs)))
	c.outcome(fmt.Sprintf("emptydir:created=%v", created))
	for _, d := range []string{d1, d2, filepath.Join(root, "nested")} {
		if fi, err := os.Stat(d); err != nil || !fi.IsDir() {
			c.violation("", fmt.Sprintf("cell %+v: directory %s is gone after the calls and Clean (calls created something: %v)", cs, strings.TrimPrefix(d, root), created), cs)
			return
		}
	}
	if d := vfDirDiff(before, after, true); d != "" {
		c.violation("", fmt.Sprintf("cell %+v: nothing is obsolete, yet Clean changed the directory: %s", cs, d), cs)
	}
}

func c05Clean(c *vfCtx, cs c05Case) {
	dir := c.newWorld()
	// directory from the model
	ids := []string{"TestB - 1", "TestA - 1"}
	if cs.Sorted {
		ids = []string{"TestA - 1", "TestB - 1"}
	}
	hasStaleEntry := cs.Stale == "entry" || cs.Stale == "both"
	hasStaleFile := cs.Stale == "file" || cs.Stale == "both"
	var es []vfEntry
	for i, id := range ids {
		es = append(es, vfEntry{ID: id, Body: "v"})
		if i == 0 && hasStaleEntry {
			stale := "TestAStale - 1" // sorts between TestA and TestB
			if !cs.Sorted {
				stale = "TestStale - 1"
			}
			es = append(es, vfEntry{ID: stale, Body: "stale"})
		}
	}
	os.WriteFile(filepath.Join(dir, "f.snap"), vfRender(es), 0o644)
	if hasStaleFile {
		os.WriteFile(filepath.Join(dir, "stale.snap"), vfRender([]vfEntry{{ID: "TestOld - 1", Body: "x"}}), 0o644)
		os.WriteFile(filepath.Join(dir, "TestOld_1.snap"), []byte("raw"), 0o644)
	}
	os.WriteFile(filepath.Join(dir, "notes.txt"), []byte("not a snapshot"), 0o644)
	vfResetState(cs.CI, cs.Env, true)
	for _, n := range []string{"TestA", "TestB"} {
		t := &vfT{name: n}
		vfCall{API: "snap", Val: "v", Upd: cs.Opt}.do(t, dir)
		t.end()
		if len(t.errs)+len(t.logs) > 0 {
			c.harnessErr("C05 clean setup: %v %v", t.errs, t.logs)
			return
		}
	}
	vfPlantSentinel(dir)
	before := vfSnapDir(dir)
	var out string
	ops := vfLogged(func() { out = vfClean("", 1, cs.Sort) })
	c.count("transitions", 1)
	after := vfSnapDir(dir)
	c.addSet("states", vfHash(fmt.Sprint(vfHashDir(after)), fmt.Sprint(cs)))
	mayDelete := !cs.CI && (cs.Env == "true" || cs.Env == "clean")
	maySort := !cs.CI && cs.Sort
	class := ""
	if cs.Sort && !mayDelete && !cs.CI && hasStaleEntry && !cs.Sorted {
		class = "F6-sort-drops-stale-entries"
	}
	c.outcome(fmt.Sprintf("clean:delete=%v,sort=%v", mayDelete, maySort))
	// expected directory
	wantEntries := []vfEntry{}
	for _, e := range es {
		if mayDelete && strings.Contains(e.ID, "Stale") {
			continue
		}
		wantEntries = append(wantEntries, e)
	}
	got, err := vfParse(after["f.snap"].Data)
	if err != nil {
		c.violation(class, fmt.Sprintf("cell %+v: f.snap malformed after Clean: %v", cs, err), cs)
		return
	}
	// multiset comparison; order checked separately
	if vfStrs(vfSorted(c05IDs(got))) != vfStrs(vfSorted(c05IDs(wantEntries))) {
		c.violation(class, fmt.Sprintf("cell %+v: after Clean f.snap holds %v, the mode table says %v", cs, c05IDs(got), c05IDs(wantEntries)), cs)
		return
	}
	for _, e := range got {
		for _, w := range wantEntries {
			if w.ID == e.ID && w.Body != e.Body {
				c.violation(class, fmt.Sprintf("cell %+v: entry [%s] changed its value to %q", cs, e.ID, e.Body), cs)
				return
			}
		}
	}
	if !maySort {
		if vfStrs(c05IDs(got)) != vfStrs(c05IDs(wantEntries)) {
			c.violation(class, fmt.Sprintf("cell %+v: sorting was not allowed, yet the order changed: %v (was %v)", cs, c05IDs(got), c05IDs(wantEntries)), cs)
			return
		}
	} else if ids := c05IDs(got); vfStrs(ids) != vfStrs(vfSorted(ids)) {
		c.violation(class, fmt.Sprintf("cell %+v: sort requested, order after Clean is %v", cs, ids), cs)
		return
	}
	for _, f := range []string{"stale.snap", "TestOld_1.snap"} {
		_, was := before[f]
		_, is := after[f]
		if was && is == mayDelete {
			c.violation(class, fmt.Sprintf("cell %+v: obsolete file %s present after Clean = %v, deletion allowed = %v", cs, f, is, mayDelete), cs)
			return
		}
	}
	if string(after["notes.txt"].Data) != "not a snapshot" {
		c.violation(class, fmt.Sprintf("cell %+v: unrelated file notes.txt touched", cs), cs)
		return
	}
	if !mayDelete && !maySort {
		if muts := vfMutOps(ops); len(muts) > 0 {
			c.violation(class, fmt.Sprintf("cell %+v: Clean may neither delete nor sort but performed %s", cs, vfShowOps(muts)), cs)
			return
		}
		if d := vfDirDiff(before, after, true); d != "" {
			c.violation(class, fmt.Sprintf("cell %+v: Clean may neither delete nor sort but the directory changed: %s", cs, d), cs)
			return
		}
	}
	// summary: obsolete items are listed in every mode
	s := vfParseSummary(out)
	wantObsTests := 0
	if hasStaleEntry {
		wantObsTests = 1
	}
	wantObsFiles := 0
	if hasStaleFile {
		wantObsFiles = 2
	}
	if len(s.ObsTests) != wantObsTests || len(s.ObsFiles) != wantObsFiles {
		c.violation(class, fmt.Sprintf("cell %+v: summary lists %d obsolete tests %v and %d obsolete files %v, expected %d and %d", cs, len(s.ObsTests), s.ObsTests, len(s.ObsFiles), s.ObsFiles, wantObsTests, wantObsFiles), cs)
	}
}

func c05IDs(es []vfEntry) []string {
	var out []string
	for _, e := range es {
		out = append(out, e.ID)
	}
	return out
}

func init() {
	vfRegister("C05", func(c *vfCtx, emit func(c05Case)) {
		c.rule = "the complete mode table: CI x Update option x UPDATE_SNAPS (real environment, one process per value) x 5 entry points x slot state (360 call cells) " +
			"and CI x UPDATE_SNAPS x sort x obsolete items x file sorted (128 Clean cells); every cell is distinct and non-trivial by construction"
		c05Gen(c, emit)
	}, c05Run)
}
