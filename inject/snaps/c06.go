//go:build verif

package snaps

import (
	"fmt"
	"os"
	"path/filepath"
	"regexp"
	"sort"
	"strings"
	"sync"
	"time"

	"github.com/gkampitakis/go-snaps/internal/verifhook/sched"
)

// C06 — parallel tests sharing a snapshot file are serialisable (DESIGN §6 C06,
// engine E2 §5.2). A case is one scenario: n threads (= tests with distinct
// names), each with 1..2 calls of a given kind, explored under every schedule
// within the preemption bound (bound < 0: unbounded with state-key pruning).

type c06Case struct {
	Threads  [][]string `json:"threads"` // kinds: create | match | mismatch | update | sa-create | sa-match | sa-mismatch | sa-update | skip
	Bound    int        `json:"bound"`
	Schedule []int      `json:"schedule,omitempty"` // replay: exactly this choice sequence
	MaxExec  int        `json:"max_exec,omitempty"`
	NoFile   bool       `json:"nofile,omitempty"` // the shared snapshot file does not exist yet (first run of a package): creating calls only
	APIs     []string   `json:"apis,omitempty"`   // per thread: the entry point of its multi-entry calls: "" = MatchSnapshot | yaml (same stored text)
}

var c06Digits = regexp.MustCompile(`[0-9]+`)

var c06Kinds = []string{"create", "match", "mismatch", "update"}

type c06Slot struct {
	thread, call int
	kind         string
	test         string
	id           string // entry id or standalone file name
	standalone   bool
}

type c06World struct {
	dir   string
	ts    []*vfT
	marks [][]vfMark
	outs  [][]string
}

// c06Test: the names of the concurrently running tests are textual prefixes of each other (TestT, TestT1, TestT10) without
// being parent and child: whatever one test does to its own registry entries must not reach the others'.
func c06Test(i int) string { return []string{"TestT", "TestT1", "TestT10", "TestT100"}[i] }

func c06Slots(cs c06Case) []c06Slot {
	var out []c06Slot
	for ti, calls := range cs.Threads {
		k, sk, sjk := 0, 0, 0
		for ci, kind := range calls {
			s := c06Slot{thread: ti, call: ci, kind: kind, test: c06Test(ti)}
			switch {
			case kind == "skip":
			case strings.HasPrefix(kind, "sj-"):
				sjk++
				s.standalone = true
				s.id = fmt.Sprintf("%s_%d.snap.json", s.test, sjk)
			case strings.HasPrefix(kind, "sa-"):
				sk++
				s.standalone = true
				s.id = fmt.Sprintf("%s_%d.snap", s.test, sk)
			default:
				k++
				s.id = fmt.Sprintf("%s - %d", s.test, k)
			}
			out = append(out, s)
		}
	}
	return out
}

var c06Big = "new " + strings.Repeat("0123456789abcdef", 1500) + "\nsecond line\n" + strings.Repeat("x", 9000)

func c06Want(kind string) (outcome, final string) {
	if strings.HasSuffix(kind, "-big") {
		o, _ := c06Want(strings.TrimSuffix(kind, "-big"))
		return o, c06Big
	}
	if strings.HasSuffix(kind, "-grow") {
		o, _ := c06Want(strings.TrimSuffix(kind, "-grow"))
		return o, "new\nsecond line\nthird line\nfourth line"
	}
	if strings.HasSuffix(kind, "-shrink") {
		return c06Want(strings.TrimSuffix(kind, "-shrink")) // the stored value has four lines, the new one has one
	}
	q := ""
	if strings.HasPrefix(kind, "sj-") {
		q = `"`
	}
	switch strings.TrimPrefix(strings.TrimPrefix(kind, "sa-"), "sj-") {
	case "create":
		return "added", q + "new" + q
	case "match":
		return "pass", q + "old" + q
	case "mismatch":
		return "failed", q + "old" + q
	case "update":
		return "updated", q + "new" + q
	}
	return "skip", ""
}

// c06Build creates a fresh world and the thread bodies. Threads whose calls
// need the same options share ONE *Config.
func c06Build(c *vfCtx, cs c06Case, n int) (*c06World, []func()) {
	dir := filepath.Join(c.scratch, "e2w")
	os.RemoveAll(dir)
	if err := os.MkdirAll(dir, 0o755); err != nil {
		panic(err)
	}
	vfResetState(false, "", true)
	// initial directory from the model: one unrelated entry first, then the pre-existing slots
	pre := []vfEntry{{ID: "TestZ - 1", Body: "keep"}}
	slots := c06Slots(cs)
	for _, s := range slots {
		if s.kind == "skip" || strings.HasSuffix(c06Base(s.kind), "create") {
			continue
		}
		if s.standalone {
			_, old := c06Want(strings.Replace(strings.Replace(s.kind, "update", "match", 1), "mismatch", "match", 1))
			os.WriteFile(filepath.Join(dir, s.id), []byte(old), 0o644)
		} else {
			body := "old"
			if strings.HasSuffix(s.kind, "-shrink") {
				body = "old\nold line 2\nold line 3\nold line 4" // the update makes the entry (and the file) three lines shorter
			}
			pre = append(pre, vfEntry{ID: s.id, Body: body})
		}
	}
	pre = append(pre, vfEntry{ID: "TestZ - 2", Body: "keep2"})
	if !cs.NoFile {
		os.WriteFile(filepath.Join(dir, "f.snap"), vfRender(pre), 0o644)
	}
	shared := map[string]*Config{
		"":        WithConfig(Dir(dir), Filename("f")),
		"true":    WithConfig(Dir(dir), Filename("f"), Update(true)),
		"false":   WithConfig(Dir(dir), Filename("f"), Update(false)),
		"sa":      WithConfig(Dir(dir)),
		"satrue":  WithConfig(Dir(dir), Update(true)),
		"safalse": WithConfig(Dir(dir), Update(false)),
	}
	w := &c06World{dir: dir}
	var bodies []func()
	for ti, calls := range cs.Threads {
		t := &vfT{name: c06Test(ti)}
		w.ts = append(w.ts, t)
		w.outs = append(w.outs, make([]string, len(calls)))
		ti, calls := ti, calls
		bodies = append(bodies, func() {
			for ci, kind := range calls {
				mk := t.mark()
				val := "new"
				if strings.HasSuffix(kind, "match") && !strings.HasSuffix(kind, "mismatch") {
					val = "old"
				}
				kind = strings.TrimSuffix(kind, "-shrink")
				if strings.HasSuffix(kind, "-grow") {
					val = "new\nsecond line\nthird line\nfourth line" // the rewrite changes the number of lines of the file
					kind = strings.TrimSuffix(kind, "-grow")
				}
				if strings.HasSuffix(kind, "-big") {
					val = c06Big // larger than any buffer a writer might put in between: must still be ONE write (A1)
					kind = strings.TrimSuffix(kind, "-big")
				}
				upd := ""
				switch strings.TrimPrefix(strings.TrimPrefix(c06Base(kind), "sa-"), "sj-") {
				case "mismatch":
					upd = "false"
				case "update":
					upd = "true"
				}
				switch {
				case kind == "skip":
					Skip(t, "skipped by scenario")
					w.outs[ti][ci] = "skip"
					continue
				case strings.HasPrefix(kind, "sj-"):
					// deliberately the same *Config as the MatchStandaloneSnapshot calls
					shared["sa"+upd].MatchStandaloneJSON(t, `"`+val+`"`)
				case strings.HasPrefix(kind, "sa-"):
					shared["sa"+upd].MatchStandaloneSnapshot(t, val)
				case ti < len(cs.APIs) && cs.APIs[ti] == "yaml":
					shared[upd].MatchYAML(t, val) // (the values are plain YAML scalars: stored as they are)
				default:
					shared[upd].MatchSnapshot(t, val)
				}
				w.outs[ti][ci] = t.outcome(mk)
			}
			t.end()
		})
	}
	return w, bodies
}

// c06Check is the oracle for one complete execution.
func c06Check(cs c06Case, w *c06World, x *sched.Exec) string {
	if x.Deadlock {
		return "deadlock: no enabled thread while some have not finished; trace tail: " + strings.Join(c06Tail(x.Trace, 12), " ")
	}
	if len(x.Panics) > 0 {
		return "panic in a thread: " + strings.Join(x.Panics, "; ")
	}
	var probs []string
	slots := c06Slots(cs)
	want := map[string]string{"TestZ - 1": "keep", "TestZ - 2": "keep2"}
	if cs.NoFile {
		want = map[string]string{}
	}
	counts := map[uint8]int{}
	skips := 0
	for _, s := range slots {
		wo, final := c06Want(s.kind)
		if got := w.outs[s.thread][s.call]; got != wo {
			probs = append(probs, fmt.Sprintf("call %d of %s (%s) signalled %s, serial outcome is %s", s.call+1, s.test, s.kind, got, wo))
		}
		switch wo {
		case "added":
			counts[added]++
		case "pass":
			counts[passed]++
		case "failed":
			counts[erred]++
		case "updated":
			counts[updated]++
		case "skip":
			skips++
			continue
		}
		if s.standalone {
			b, err := os.ReadFile(filepath.Join(w.dir, s.id))
			if err != nil || string(b) != final {
				probs = append(probs, fmt.Sprintf("standalone file %s = %q (%v), want %q", s.id, b, err, final))
			}
		} else {
			want[s.id] = final
		}
	}
	data, _ := os.ReadFile(filepath.Join(w.dir, "f.snap"))
	es, err := vfParse(data)
	if err != nil {
		probs = append(probs, fmt.Sprintf("final file is malformed (%v): %q", err, vfClip(string(data))))
	}
	seen := map[string]int{}
	var order []string
	for _, e := range es {
		seen[e.ID]++
		order = append(order, e.ID)
		if wv, ok := want[e.ID]; !ok {
			probs = append(probs, fmt.Sprintf("unexpected entry [%s]", e.ID))
		} else if wv != e.Body {
			probs = append(probs, fmt.Sprintf("entry [%s] holds %q, want %q", e.ID, e.Body, wv))
		}
	}
	for id := range want {
		if seen[id] == 0 {
			probs = append(probs, fmt.Sprintf("entry [%s] is lost", id))
		} else if seen[id] > 1 {
			probs = append(probs, fmt.Sprintf("entry [%s] is duplicated (%d times)", id, seen[id]))
		}
	}
	// pre-existing entries keep their relative order
	var preOrder, gotPre []string
	preOrder = append(preOrder, "TestZ - 1")
	for _, s := range slots {
		if s.kind != "skip" && !s.standalone && !strings.HasSuffix(c06Base(s.kind), "create") {
			preOrder = append(preOrder, s.id)
		}
	}
	preOrder = append(preOrder, "TestZ - 2")
	if cs.NoFile {
		preOrder = nil
	}
	isPre := map[string]bool{}
	for _, id := range preOrder {
		isPre[id] = true
	}
	for _, id := range order {
		if isPre[id] {
			gotPre = append(gotPre, id)
		}
	}
	if len(probs) == 0 && strings.Join(gotPre, "|") != strings.Join(preOrder, "|") {
		probs = append(probs, fmt.Sprintf("pre-existing entries reordered: %v, were %v", gotPre, preOrder))
	}
	for _, ev := range []uint8{added, passed, erred, updated} {
		if testEvents.items[ev] != counts[ev] {
			probs = append(probs, fmt.Sprintf("outcome counter %d = %d, serial value %d", ev, testEvents.items[ev], counts[ev]))
		}
	}
	if len(skippedTests.values) != skips {
		probs = append(probs, fmt.Sprintf("skip list has %d names, %d Skip calls were made", len(skippedTests.values), skips))
	}
	sort.Strings(probs)
	return strings.Join(probs, "; ")
}

func c06Tail(l []string, n int) []string {
	if len(l) > n {
		return l[len(l)-n:]
	}
	return l
}

// c06F4: predicate of finding F4 — an appending (creating) call in one thread
// can land inside another thread's rewrite (updating call) of the same file.
func c06F4(cs c06Case) bool {
	for i, a := range cs.Threads {
		for j, b := range cs.Threads {
			if i == j {
				continue
			}
			for _, x := range a {
				for _, y := range b {
					if strings.HasPrefix(x, "create") && strings.HasPrefix(y, "update") {
						return true
					}
				}
			}
		}
	}
	return false
}

// c06F1: predicate of finding F1 — a MatchStandaloneJSON call and a
// MatchStandaloneSnapshot call go through the same *Config.
func c06F1(cs c06Case) bool {
	sj, sa := false, false
	for _, t := range cs.Threads {
		for _, k := range t {
			sj = sj || strings.HasPrefix(k, "sj-")
			sa = sa || strings.HasPrefix(k, "sa-")
		}
	}
	return sj && sa
}

func c06Run(c *vfCtx, cs c06Case) {
	n := 0
	var w *c06World
	mk := func() []func() {
		n++
		var b []func()
		w, b = c06Build(c, cs, n)
		return b
	}
	sched.MemKey = vfMemKey
	sched.FSKey = func() uint64 { return vfHashDir(vfSnapDir(w.dir)) }
	class := ""
	if c06F4(cs) {
		class = "F4-append-races-rewrite"
	}
	if c06F1(cs) {
		class = "F1-config-mutated-by-standalone-json"
	}
	nontrivial := false
	kinds := map[string]bool{}
	for _, t := range cs.Threads {
		for _, k := range t {
			kinds[k] = true
		}
	}
	if kinds["create"] || kinds["update"] || kinds["sa-create"] || kinds["sa-update"] || kinds["sj-create"] || kinds["sj-update"] {
		nontrivial = true // at least one writer
	}
	if cs.Schedule != nil {
		// replay of one schedule, twice: observations must be identical (determinism self-check)
		var first string
		for rep := 0; rep < 2; rep++ {
			x := sched.Run(cs.Schedule, mk(), nil)
			if x.Diverged {
				c.harnessErr("replay: schedule diverged")
				return
			}
			obs := fmt.Sprint(w.outs, c06Digits.ReplaceAllString(strings.Join(x.Trace, " "), "#"), vfHashDir(vfSnapDir(w.dir)))
			if rep == 0 {
				first = obs
			} else if obs != first {
				c.harnessErr("non-determinism: the same schedule produced different observations")
				return
			}
			if p := c06Check(cs, w, x); p != "" && rep == 1 {
				c.violation(class, fmt.Sprintf("schedule %v: %s\n  steps: %s", cs.Schedule, p, strings.Join(x.Trace, " ")), cs)
			}
		}
		c.count("transitions", 1)
		return
	}
	distinctOutcomes := map[string]bool{}
	execs := 0
	reported := 0
	stop := func() bool { return !c.deadline.IsZero() && time.Now().After(c.deadline) }
	st := sched.ExploreUntil(cs.Bound, nil, cs.MaxExec, stop, mk, func(x *sched.Exec) bool {
		execs++
		c.count("transitions", int64(len(x.Points)))
		data, _ := os.ReadFile(filepath.Join(w.dir, "f.snap"))
		distinctOutcomes[fmt.Sprint(w.outs)+string(data)] = true
		if x.Preemptions(len(x.Points)) > 0 && nontrivial {
			c.count("preempting_schedules", 1)
		}
		if execs == 1 {
			// determinism self-check: replay the first complete schedule and compare
			// (digits are masked: code under test may use random temporary file names)
			tr := c06Digits.ReplaceAllString(strings.Join(x.Trace, " "), "#")
			outs := fmt.Sprint(w.outs)
			y := sched.Run(x.Choices, mk(), nil)
			if c06Digits.ReplaceAllString(strings.Join(y.Trace, " "), "#") != tr || fmt.Sprint(w.outs) != outs {
				c.harnessErr("non-determinism: replaying schedule %v gave a different trace", x.Choices)
				return false
			}
			y2 := sched.Run(x.Choices, mk(), nil) // leave w consistent for the caller
			_ = y2
		}
		if p := c06Check(cs, w, x); p != "" {
			if reported < 1 {
				v := cs
				v.Schedule = append([]int{}, x.Choices...)
				c.violation(class, fmt.Sprintf("threads %v, schedule with %d preemption(s): %s\n  steps: %s", cs.Threads, x.Preemptions(len(x.Points)), p, strings.Join(x.Trace, " ")), v)
			} else {
				c.violCounts[class]++
			}
			reported++
		}
		return true
	})
	c.count("schedules", int64(st.Executions))
	c.count("pruned_executions", int64(st.Pruned))
	c.count("violating_schedules", int64(reported))
	if st.Capped {
		c.cap("deadline-or-max_exec")
		c.stopped = true
		c.outcome(fmt.Sprintf("CAPPED threads=%v bound=%d after %d schedules", cs.Threads, cs.Bound, st.Executions))
	}
	if int64(st.MaxPoints) > c.counters["max_points_per_execution"] {
		c.counters["max_points_per_execution"] = int64(st.MaxPoints)
	}
	for k := range distinctOutcomes {
		c.addSet("final_states", vfHash(k))
		c.addSet("states", vfHash(fmt.Sprint(cs.Threads), k))
	}
	if cs.Bound < 0 {
		c.count("state_keys", int64(st.States))
	}
	if nontrivial && len(cs.Threads) > 1 {
		c.addSet("nontrivial", vfHashJSON(cs))
	}
	c.outcome(fmt.Sprintf("threads=%d bound=%d", len(cs.Threads), cs.Bound))
}

func c06Gen(c *vfCtx, emit func(c06Case)) {
	type fam struct {
		name    string
		threads int
		calls   int
		bound   int
		full    bool
	}
	var kindsets func(n int, kinds []string) [][]string
	kindsets = func(n int, kinds []string) [][]string {
		if n == 0 {
			return [][]string{{}}
		}
		var out [][]string
		for _, rest := range kindsets(n-1, kinds) {
			for _, k := range kinds {
				out = append(out, append(append([]string{}, rest...), k))
			}
		}
		return out
	}
	scen := func(perThread [][]string, bound int) {
		emit(c06Case{Threads: perThread, Bound: bound})
	}
	extras := []string{"sa-create", "sa-update", "sa-mismatch", "skip", "sj-create", "sj-update"}
	yamlThreads := func() {
		// the same kinds of calls made through the other entry points that share the multi-entry file (one thread, or both)
		for _, a := range kindsets(2, c06Kinds) {
			for _, apis := range [][]string{{"yaml", ""}, {"", "yaml"}, {"yaml", "yaml"}} {
				emit(c06Case{Threads: [][]string{{a[0]}, {a[1]}}, Bound: 2, APIs: apis})
			}
		}
		for _, k := range []string{"update", "create", "match"} {
			emit(c06Case{Threads: [][]string{{"update-grow"}, {k}}, Bound: 2, APIs: []string{"yaml", ""}})
			emit(c06Case{Threads: [][]string{{k}, {"update-shrink"}}, Bound: 2, APIs: []string{"", "yaml"}})
			emit(c06Case{Threads: [][]string{{"update-grow"}, {k}}, Bound: 2, APIs: []string{"yaml", "yaml"}})
		}
	}
	if !c.thorough() {
		// 2 threads x 1 call, all 16 assignments, preemption bound 3
		for _, a := range kindsets(2, c06Kinds) {
			scen([][]string{{a[0]}, {a[1]}}, 3)
		}
		// 2 threads x 2 calls (same kind twice per thread), bound 2
		for _, a := range kindsets(2, c06Kinds) {
			scen([][]string{{a[0], a[0]}, {a[1], a[1]}}, 2)
		}
		// 3 threads x 1 call, all 64 assignments, bound 1 ... and the writer-heavy ones at bound 2
		for _, a := range kindsets(3, c06Kinds) {
			scen([][]string{{a[0]}, {a[1]}, {a[2]}}, 1)
		}
		for _, a := range kindsets(3, []string{"create", "update"}) {
			scen([][]string{{a[0]}, {a[1]}, {a[2]}}, 2)
		}
		// mixes with standalone calls and Skip
		for _, k := range c06Kinds {
			for _, e := range extras {
				scen([][]string{{k, e}, {e, "create"}}, 2)
			}
		}
		// one shared Config used for MatchStandaloneJSON and MatchStandaloneSnapshot
		for _, e := range []string{"sa-create", "sa-update", "sa-match"} {
			for _, j := range []string{"sj-create", "sj-update", "sj-match"} {
				scen([][]string{{j, e}, {e}}, 2)
				scen([][]string{{e}, {j}}, 3)
			}
		}
		// updates that change the number of lines of the file (line numbers found earlier go stale)
		for _, k := range []string{"update", "update-grow", "match", "mismatch", "create"} {
			scen([][]string{{"update-grow"}, {k}}, 2)
			scen([][]string{{k}, {"update-grow"}}, 2)
			scen([][]string{{"update-shrink"}, {k}}, 2)
			scen([][]string{{k}, {"update-shrink"}}, 2)
		}
		scen([][]string{{"update-shrink"}, {"update-shrink"}}, 2)
		yamlThreads()
		// the very first run: the shared file does not exist yet, every thread creates
		for i, th := range [][][]string{{{"create"}, {"create"}}, {{"create", "create"}, {"create"}}, {{"create"}, {"create"}, {"create"}}, {{"create-big"}, {"create"}}} {
			emit(c06Case{Threads: th, Bound: []int{3, 2, 1, 2}[i], NoFile: true})
		}
		// values of ~40 KB: appends and rewrites must stay single atomic writes
		for _, k := range []string{"create", "update", "match", "create-big", "update-big"} {
			scen([][]string{{"create-big"}, {k}}, 2)
			scen([][]string{{"update-big"}, {k}}, 2)
		}
		c.bound("families", "2x1 all16@pb3; 2x2 diagonal16@pb2; 3x1 all64@pb1; 3x1 {create,update}^3@pb2; mixes with standalone/Skip 16@pb2")
	} else {
		// 2 threads x 1 call: unbounded (every schedule), with state-key pruning
		for _, a := range kindsets(2, c06Kinds) {
			scen([][]string{{a[0]}, {a[1]}}, -1)
		}
		yamlThreads()
		// 2 threads x 2 calls: all 256 assignments at preemption bound 2, the diagonal at bound 3
		for _, a := range kindsets(4, c06Kinds) {
			scen([][]string{{a[0], a[1]}, {a[2], a[3]}}, 2)
		}
		for _, a := range kindsets(2, c06Kinds) {
			scen([][]string{{a[0], a[0]}, {a[1], a[1]}}, 3)
		}
		// 3 threads x 1 call: all 64 assignments at bound 2
		for _, a := range kindsets(3, c06Kinds) {
			scen([][]string{{a[0]}, {a[1]}, {a[2]}}, 2)
		}
		for _, k := range c06Kinds {
			for _, e := range extras {
				scen([][]string{{k, e}, {e, "create"}}, 3)
			}
			for _, e := range []string{"sa-create", "sj-update", "skip"} {
				scen([][]string{{k}, {e}, {"create", e}}, 2)
			}
		}
		for _, e := range []string{"sa-create", "sa-update", "sa-match"} {
			for _, j := range []string{"sj-create", "sj-update", "sj-match"} {
				scen([][]string{{j, e}, {e}}, 3)
				scen([][]string{{e}, {j}}, -1)
			}
		}
		for _, k := range []string{"create", "update", "match", "create-big", "update-big"} {
			scen([][]string{{"create-big"}, {k}}, 3)
			scen([][]string{{"update-big"}, {k}}, 3)
			scen([][]string{{"create-big"}, {k}, {"create"}}, 1)
		}
		c.bound("families", "big values (~40 KB) 10@pb3 + 5 three-thread@pb1; 2x1 all16 unbounded (state-key pruning); 2x2 all256@pb2 + diagonal16@pb3; 3x1 all64@pb2; mixes with standalone/Skip 24@pb3 and 12 three-thread@pb2; one Config for MatchStandaloneJSON+MatchStandaloneSnapshot 9@pb3 + 9 unbounded")
		c.note("measured: unbounded exploration with the conservative state key finishes for 2 threads x 1 call (3.3e4 schedules, 6.9e4 state keys per scenario) but not for 3x1 or 2x2 within the deadline (>9e6 transitions); those use preemption bounds")
	}
	c.bound("scheduling_points", "every lock operation of vsync.Mutex/RWMutex and every file-system operation of vos")
}

// c06Race is the free-running pass under the race detector: same bodies,
// real goroutines, passive shims. Dynamic detection, not enumeration.
func c06Race(c *vfCtx) {
	reps := 60
	if c.thorough() {
		reps = 300
	}
	var scen [][][]string
	for _, a := range c06Kinds {
		for _, b := range c06Kinds {
			scen = append(scen, [][]string{{a, "sa-create"}, {b, "skip"}, {"create", "sa-update"}})
			scen = append(scen, [][]string{{a, "sj-create"}, {"sa-create", b}, {"sj-update", "sa-update"}})
		}
	}
	n := 0
	for _, s := range scen {
		cs := c06Case{Threads: s}
		for r := 0; r < reps; r++ {
			n++
			_, bodies := c06Build(c, cs, n)
			var wg sync.WaitGroup
			start := make(chan struct{})
			for _, b := range bodies {
				wg.Add(1)
				b := b
				go func() { defer wg.Done(); <-start; b() }()
			}
			close(start)
			wg.Wait()
			c.count("race_runs", 1)
		}
	}
}

// c06RaceBig: readers (and one writer at the end) of ONE shared snapshot file that is larger than the 64 KiB a
// scanner starts with, so that every look-up goes through the code paths big files take; free-running under -race.
func c06RaceBig(c *vfCtx) {
	reps := 6
	if c.thorough() {
		reps = 30
	}
	const nT = 8
	for r := 0; r < reps; r++ {
		dir := filepath.Join(c.scratch, "e2w")
		os.RemoveAll(dir)
		os.MkdirAll(dir, 0o755)
		vfResetState(false, "", true)
		var pre []vfEntry
		val := func(i int) string {
			return strings.Repeat(fmt.Sprintf("line of test %d 0123456789 0123456789 0123456789\n", i), 220) + "end"
		}
		for i := 0; i < nT; i++ {
			pre = append(pre, vfEntry{ID: fmt.Sprintf("TestT%d - 1", i), Body: val(i)})
		}
		os.WriteFile(filepath.Join(dir, "f.snap"), vfRender(pre), 0o644)
		cfg := WithConfig(Dir(dir), Filename("f"))
		var wg sync.WaitGroup
		start := make(chan struct{})
		for i := 0; i < nT; i++ {
			wg.Add(1)
			i := i
			go func() {
				defer wg.Done()
				<-start
				for round := 0; round < 5; round++ {
					t := &vfT{name: fmt.Sprintf("TestT%d", i)}
					cfg.MatchSnapshot(t, val(i))
					if i == nT-1 && round == 4 {
						WithConfig(Dir(dir), Filename("f"), Update(true)).MatchSnapshot(t, "second slot")
					}
					t.end()
				}
			}()
		}
		close(start)
		wg.Wait()
		c.count("race_runs", 1)
	}
}

// c06RaceJSON: one Config built with every option (a JSON format among them) shared by tests that call the JSON entry points
// at the same time: whatever the Config holds is read-only for the calls.
func c06RaceJSON(c *vfCtx) {
	reps := 10
	if c.thorough() {
		reps = 60
	}
	for r := 0; r < reps; r++ {
		dir := filepath.Join(c.scratch, "e2w")
		os.RemoveAll(dir)
		os.MkdirAll(dir, 0o755)
		vfResetState(false, "", true)
		cfg := WithConfig(Dir(dir), Filename("f"), Ext(".x"), Update(true), JSON(JSONConfig{Indent: "  ", SortKeys: true, Width: 30}))
		var wg sync.WaitGroup
		start := make(chan struct{})
		for i := 0; i < 6; i++ {
			wg.Add(1)
			i := i
			go func() {
				defer wg.Done()
				<-start
				t := &vfT{name: fmt.Sprintf("TestJ%d", i)}
				cfg.MatchJSON(t, fmt.Sprintf(`{"b":[1,2,3],"a":%d}`, i))
				cfg.MatchStandaloneJSON(t, map[string]any{"i": i, "l": []int{1, 2}})
				cfg.MatchYAML(t, fmt.Sprintf("a: %d\n", i))
				t.end()
			}()
		}
		close(start)
		wg.Wait()
		c.count("race_runs", 1)
	}
}

func init() {
	vfRegister("C06", func(c *vfCtx, emit func(c06Case)) {
		c.rule = "every scenario = assignment of {create, match, mismatch, update, standalone variants, Skip} to the calls of 2..3 concurrently running tests sharing one snapshot file and shared Configs; " +
			"per scenario EVERY schedule at lock/fs-operation granularity within the preemption bound (or unbounded with state-key pruning) is executed on the real code; " +
			"evaluations = scenarios, schedules = executions; non-trivial = distinct scenarios with two or more threads and at least one writer"
		c.assume("A1: one write(2) on an O_APPEND descriptor is atomic; each file-system call is one atomic step")
		c.assume("shared memory is read and written only between scheduling points; unsynchronised accesses are caught by the separate free-running -race pass, not by the scheduler")
		c06Gen(c, emit)
	}, c06Run)
	vfDrivers["C06"].race = func(c *vfCtx) { c06Race(c); c06RaceBig(c); c06RaceJSON(c) }
}

// c06Base strips the value-shape suffixes of a kind.
func c06Base(kind string) string {
	return strings.TrimSuffix(strings.TrimSuffix(strings.TrimSuffix(kind, "-big"), "-grow"), "-shrink")
}
