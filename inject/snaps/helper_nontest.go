//go:build verif

package snaps

// vfNonTestMatch is a golden-file helper as projects write them: it lives in a file that is NOT a test file and is called
// from several test files. The snapshot file of a call without a Filename option is named after the calling TEST file.
//
//go:noinline
func vfNonTestMatch(cfg *Config, t testingT, v any) {
	cfg.MatchSnapshot(t, v)
}
