//go:build verif

package snaps

import (
	"sort"
	"strings"
)

// DESIGN §3.1: line-token alphabet Σ. One token per shortcut visible in the
// code. A CR at the end of a line is the documented limitation and is not in
// any multi-entry alphabet.
var (
	vfSigmaCore = []string{"a", "b", "", " ", "---", "/-/-/-/", "----", "[TestA - 1]", "[TestA - 2]", "\xff", "$1", "%d"}
	vfSigmaFull = []string{"a", "b", "", " ", "\t", "---", "/-/-/-/", "----", "--- ", " ---",
		"[TestA - 1]", "[TestA - 2]", "[TestA - 10]", "[TestB - 1]", "[Test", "]",
		"\xff", "\xfe", "a\xffb", "é", "a\rb", "- x", "+ x", "  x", "@@ -1 +1 @@",
		"$1", "${a}", "$$", "%d", "%s", "%", "\\1", "\\"}
	vfSigmaSmall = []string{"a", "", "---", "/-/-/-/", "[TestA - 2]", "$1"}
)

// vfBodies enumerates every body of 0..maxLines lines over sigma, each
// followed by 0..maxExtraNL extra newlines; duplicates removed, shortest first.
func vfBodies(sigma []string, maxLines, maxExtraNL int) []string {
	seen := map[string]bool{}
	var out []string
	add := func(s string) {
		if !seen[s] {
			seen[s] = true
			out = append(out, s)
		}
	}
	var rec func(prefix []string, depth int)
	rec = func(prefix []string, depth int) {
		base := strings.Join(prefix, "\n")
		for k := 0; k <= maxExtraNL; k++ {
			add(base + strings.Repeat("\n", k))
		}
		if depth == maxLines {
			return
		}
		for _, t := range sigma {
			rec(append(append([]string{}, prefix...), t), depth+1)
		}
	}
	rec(nil, 0)
	sort.SliceStable(out, func(i, j int) bool { return len(out[i]) < len(out[j]) })
	return out
}

func vfLines(s string) []string { return strings.Split(s, "\n") }

// vfHasLine reports whether some whole line of body equals l.
func vfHasLine(body, l string) bool {
	for _, x := range vfLines(body) {
		if x == l {
			return true
		}
	}
	return false
}

func vfHasTrailingCR(s string) bool {
	for _, l := range vfLines(s) {
		if strings.HasSuffix(l, "\r") {
			return true
		}
	}
	return false
}

// vfSpecial: does the text contain a token that exercises a framing shortcut
// (used for the non-triviality count)?
func vfSpecial(s string) bool {
	for _, l := range vfLines(s) {
		switch {
		case l == "" || strings.TrimSpace(l) == "":
			return true
		case strings.Contains(l, "---") || strings.Contains(l, "/-/"):
			return true
		case strings.HasPrefix(l, "[") || strings.HasSuffix(l, "]"):
			return true
		case strings.ContainsAny(l, "\xff\xfe\r"):
			return true
		case len(l) > 60000:
			return true
		case strings.ContainsAny(l, "$%\\"):
			return true
		}
	}
	return false
}
