//go:build verif

package snaps

import (
	"sort"
	"strconv"
	"strings"
)

// DESIGN §3.1: line-token alphabet Σ. One token per shortcut visible in the
// code. A CR at the end of a line is the documented limitation and is not in
// any multi-entry alphabet.
var (
	vfSigmaCore = []string{"a", "b", "", " ", "---", "/-/-/-/", "----", "[TestA - 1]", "[TestA - 2]", "[TestQ - 7]", "\xff", "$1", "%d", "--- "}
	vfSigmaFull = []string{"a", "b", "", " ", "\t", "---", "/-/-/-/", "----", "--- ", " ---",
		"[TestA - 1]", "[TestA - 2]", "[TestA - 10]", "[TestB - 1]", "[TestQ - 7]", "[Test", "]",
		"\xff", "\xfe", "a\xffb", "é", "a\rb", "- x", "+ x", "  x", "@@ -1 +1 @@",
		"$1", "${a}", "$$", "%d", "%s", "%", "\\1", "\\", "---\t", "100% done"}
	vfSigmaSmall = []string{"a", "", "---", "/-/-/-/", "[TestA - 2]", "[TestQ - 7]", "$1", "--- "}
)

// vfBigValues: values around the sizes at which readers and writers change
// behaviour (4 KiB and 64 KiB buffers, bufio.Scanner's default token limit).
func vfBigValues() []string {
	l4k := strings.Repeat("x", 4097)
	l64k := strings.Repeat("y", 65537)
	many := strings.Repeat("a line of a big value 0123456789\n", 200) + "end"
	return []string{l4k, l64k, "head\n" + l64k + "\ntail", many, many + "\n---\n" + l4k}
}

// vfBoundaryLines: one long line in which a special token sits exactly at, right
// before or right after the sizes at which buffered readers split their input.
func vfBoundaryLines() []string {
	var out []string
	for _, n := range []int{4096, 65536} {
		for _, tok := range []string{"---", "/-/-/-/", "[TestA - 2]"} {
			out = append(out, strings.Repeat("x", n)+tok, strings.Repeat("x", n-len(tok))+tok, strings.Repeat("x", n)+tok+"y", tok+strings.Repeat("x", n))
		}
	}
	return out
}

// vfNear lists near-misses of a special token: what a reader or writer that is
// slightly too tolerant (trimming, prefix/suffix matching, doubling) would confuse with it.
func vfNear(tok string) []string {
	out := []string{tok + " ", tok + "\t", " " + tok, "\t" + tok, tok + tok, tok + " " + tok, tok + "x", "x" + tok}
	if len(tok) > 1 {
		out = append(out, tok[:len(tok)-1], tok[1:])
	}
	return out
}

// vfSigmaNear: the full alphabet plus the near-misses of every token the file
// format gives a meaning to (used for one-line bodies in the thorough tiers).
var vfSigmaNear []string

func init() {
	seen := map[string]bool{}
	for _, t := range vfSigmaFull {
		seen[t] = true
		vfSigmaNear = append(vfSigmaNear, t)
	}
	for _, special := range []string{"---", "/-/-/-/", "[TestA - 1]", "[TestA - 2]"} {
		for _, n := range vfNear(special) {
			if !seen[n] {
				seen[n] = true
				vfSigmaNear = append(vfSigmaNear, n)
			}
		}
	}
}

// vfBodies enumerates every body of 0..maxLines lines over sigma, each
// followed by 0..maxExtraNL extra newlines; duplicates removed, shortest first.
func vfBodies(sigma []string, maxLines, maxExtraNL int) []string {
	seen := map[string]bool{}
	var out []string
	add := func(s string) {
		if !seen[s] {
			seen[s] = true
			out = append(out, s)
		}
	}
	var rec func(prefix []string, depth int)
	rec = func(prefix []string, depth int) {
		base := strings.Join(prefix, "\n")
		for k := 0; k <= maxExtraNL; k++ {
			add(base + strings.Repeat("\n", k))
		}
		if depth == maxLines {
			return
		}
		for _, t := range sigma {
			rec(append(append([]string{}, prefix...), t), depth+1)
		}
	}
	rec(nil, 0)
	sort.SliceStable(out, func(i, j int) bool { return len(out[i]) < len(out[j]) })
	return out
}

func vfLines(s string) []string { return strings.Split(s, "\n") }

// vfHasLine reports whether some whole line of body equals l.
func vfHasLine(body, l string) bool {
	for _, x := range vfLines(body) {
		if x == l {
			return true
		}
	}
	return false
}

func vfHasTrailingCR(s string) bool {
	for _, l := range vfLines(s) {
		if strings.HasSuffix(l, "\r") {
			return true
		}
	}
	return false
}

// vfSpecial: does the text contain a token that exercises a framing shortcut
// (used for the non-triviality count)?
func vfSpecial(s string) bool {
	for _, l := range vfLines(s) {
		switch {
		case l == "" || strings.TrimSpace(l) == "":
			return true
		case strings.Contains(l, "---") || strings.Contains(l, "/-/"):
			return true
		case strings.HasPrefix(l, "[") || strings.HasSuffix(l, "]"):
			return true
		case strings.ContainsAny(l, "\xff\xfe\r"):
			return true
		case len(l) > 60000:
			return true
		case strings.ContainsAny(l, "$%\\"):
			return true
		}
	}
	return false
}

// vfLongTexts: pairs of long texts (DESIGN §6 C13 (c)): bases of 12 and 210
// lines, distinct lines and a variant in which one line is "popular" (repeated
// often enough for difflib's popular-line purge, which needs >= 200 lines),
// x single edits {delete, insert, replace} at several positions, including a
// replacement of a unique line by the popular line and vice versa.
func vfLongTexts(thorough bool) [][2]string {
	var out [][2]string
	for _, n := range []int{12, 210} {
		for _, popular := range []bool{false, true} {
			var base []string
			for i := 0; i < n; i++ {
				if popular && i%3 == 1 {
					base = append(base, "},")
				} else {
					base = append(base, "line "+strconv.Itoa(i))
				}
			}
			pos := []int{0, 1, n / 2, n/2 + 1, n - 2, n - 1}
			if thorough {
				pos = nil
				for i := 0; i < n; i += 1 + n/40 {
					pos = append(pos, i)
				}
				pos = append(pos, n-1)
			}
			join := func(l []string) string { return strings.Join(l, "\n") }
			for _, p := range pos {
				del := append(append([]string{}, base[:p]...), base[p+1:]...)
				ins := append(append(append([]string{}, base[:p]...), "inserted"), base[p:]...)
				rep := append([]string{}, base...)
				rep[p] = "replaced"
				repPop := append([]string{}, base...)
				repPop[p] = "},"
				if base[p] == "}," {
					repPop[p] = "unique " + strconv.Itoa(p)
				}
				for _, v := range [][]string{del, ins, rep, repPop} {
					if join(v) != join(base) {
						out = append(out, [2]string{join(base), join(v)}, [2]string{join(v), join(base)})
					}
				}
				if p+8 < n {
					// two edits more than 2*context lines apart: two hunks
					two := append([]string{}, base...)
					two[p] = "first edit"
					two[p+8] = "second edit"
					out = append(out, [2]string{join(base), join(two)})
				}
			}
		}
	}
	join := func(l []string) string { return strings.Join(l, "\n") }
	// texts that differ only in HOW OFTEN a line is repeated (runs of 1..12 equal lines, alone and between other lines)
	for n := 1; n <= 12; n++ {
		for _, d := range []int{1, 2} {
			a, b := make([]string, n), make([]string, n+d)
			for i := range a {
				a[i] = "same"
			}
			for i := range b {
				b[i] = "same"
			}
			out = append(out, [2]string{join(a), join(b)}, [2]string{join(b), join(a)})
			wa := append(append([]string{"head"}, a...), "tail")
			wb := append(append([]string{"head"}, b...), "tail")
			out = append(out, [2]string{join(wa), join(wb)}, [2]string{join(wb), join(wa)})
		}
	}
	// a record-shaped text of more than 200 lines: a popular line that keeps recurring AFTER other lines were first seen
	for _, items := range []int{99, 100, 130} {
		var base []string
		base = append(base, "users:")
		for i := 0; i < items; i++ {
			base = append(base, "  - id: "+strconv.Itoa(i), "    active: true")
		}
		for _, p := range []int{1, len(base) / 2, len(base) - 2} {
			if p%2 == 0 {
				p--
			}
			ch := append([]string{}, base...)
			ch[p] = "  - id: changed"
			out = append(out, [2]string{join(base), join(ch)}, [2]string{join(ch), join(base)})
		}
		del := append(append([]string{}, base[:40]...), base[41:]...)
		out = append(out, [2]string{join(base), join(del)}, [2]string{join(del), join(base)})
	}
	return out
}
