//go:build verif

package snaps

import (
	"encoding/json"
	"fmt"
	"github.com/gkampitakis/go-snaps/match"
	"os"
	"path/filepath"
	"strings"

	"github.com/kr/pretty"
)

// C19 — a standalone snapshot file is the formatted value and nothing else
// (DESIGN §6 C19).

type c19Case struct {
	Name  string   `json:"name"`
	API   string   `json:"api"` // ssnap | sjson
	Vals  []string `json:"vals"`
	New   []string `json:"new,omitempty"` // update phase: new values (same length as Vals)
	Execs int      `json:"execs"`
	Other string   `json:"other,omitempty"` // a second test (other name) that makes the same number of calls with its own values first
	File  string   `json:"file,omitempty"`  // Filename option
	Ext   string   `json:"ext,omitempty"`
	Link  bool     `json:"link,omitempty"` // the snapshot directory is reached through a symbolic link and does not exist before the first call
}

type c19CaseJ c19Case

func (cs c19Case) MarshalJSON() ([]byte, error) {
	j := c19CaseJ(cs)
	j.Vals = append([]string{}, j.Vals...)
	for i := range j.Vals {
		j.Vals[i] = vfEnc(j.Vals[i])
	}
	j.New = append([]string{}, j.New...)
	for i := range j.New {
		j.New[i] = vfEnc(j.New[i])
	}
	return json.Marshal(j)
}

func (cs *c19Case) UnmarshalJSON(b []byte) error {
	var j c19CaseJ
	if err := vfUnmarshalStrict(b, &j); err != nil {
		return err
	}
	for i := range j.Vals {
		j.Vals[i] = vfDec(j.Vals[i])
	}
	for i := range j.New {
		j.New[i] = vfDec(j.New[i])
	}
	*cs = c19Case(j)
	return nil
}

type c19Struct struct {
	A int
	B string
	C []string
	D map[string]int
}

// c19GoVal maps catalogue names to Go values (values starting with "go:").
func c19GoVal(v string) (any, bool) {
	switch v {
	case "go:int":
		return 5, true
	case "go:struct":
		return c19Struct{A: 1, B: "x\n---\ny", C: []string{"a", "b"}, D: map[string]int{"k": 1}}, true
	case "go:ptr":
		return &c19Struct{A: 2}, true
	case "go:map":
		return map[string]any{"b": 1, "a": []int{1, 2}}, true
	case "go:bytes":
		return []byte("ab\r\n"), true
	case "go:nil":
		return nil, true
	case "go:slice":
		return []string{"---", "[TestA - 1]"}, true
	}
	return nil, false
}

func c19Input(v string) any {
	if g, ok := c19GoVal(v); ok {
		return g
	}
	return v
}

// c19Formatted is the reference formatted value: the bytes of a string,
// pretty.Sprint of any other Go value (the documented formatter).
func c19Formatted(v string) string {
	if g, ok := c19GoVal(v); ok {
		return pretty.Sprint(g)
	}
	return pretty.Sprint(v)
}

func c19Gen(c *vfCtx, emit func(c19Case)) {
	toks := []string{"a", "\n", "\r\n", "---", "[TestA - 1]", "\xff", "%d", "a\r"}
	var vals []string
	seen := map[string]bool{}
	var rec func(acc string, d int)
	rec = func(acc string, d int) {
		if !seen[acc] {
			seen[acc] = true
			vals = append(vals, acc)
		}
		if d == 5 || (!c.thorough() && d == 3) {
			return
		}
		for _, t := range toks {
			rec(acc+t, d+1)
		}
	}
	rec("", 0)
	c.bound("tokens", vfQ(toks))
	c.bound("values", len(vals))
	gov := []string{"go:int", "go:struct", "go:ptr", "go:map", "go:bytes", "go:nil", "go:slice"}
	names := []string{"TestA", "TestA/s", "TestA/100%", "TestA/s#01", "TestA/%d", "TestA/a_b/c", "TestA/timeout:30s", "TestA/<b>|\"q\"*?"}
	c.bound("names", names)
	// every value alone, in every test name (1 call, 2 executions)
	for _, v := range append(append([]string{}, vals...), gov...) {
		for ni, n := range names {
			if !c.thorough() && ni > 0 && len(v) > 3 && !strings.HasPrefix(v, "go:") {
				continue
			}
			emit(c19Case{Name: n, API: "ssnap", Vals: []string{v}, Execs: 2})
		}
	}
	// 1..3 calls per test, 1..3 executions, then update with shorter / longer values
	short := []string{"", "a", "a\r\n", "---", "\xff", "go:struct", strings.Repeat("long ", 40), "a\nb", "a\n", "a\nb\n\nc",
		// tabs, vertical tabs and form feeds: the documented formatter aligns / rewrites them, for a string like for any other value
		"name\tvalue\nlonger name\tv", "a\vb\fc\n\tindented"}
	for _, n := range names {
		for _, execs := range []int{1, 2, 3} {
			for i, v1 := range short {
				for j, v2 := range short {
					emit(c19Case{Name: n, API: "ssnap", Vals: []string{v1, v2}, New: []string{v2, v1}, Execs: execs})
					if (i+j)%3 == 0 {
						emit(c19Case{Name: n, API: "ssnap", Vals: []string{v1, v2, "third"}, New: []string{v1, "changed", v2}, Execs: execs})
					}
				}
			}
		}
	}
	for _, b := range vfBigValues() {
		emit(c19Case{Name: "TestA/s", API: "ssnap", Vals: []string{b, "small"}, New: []string{"small", b}, Execs: 3})
	}
	// two tests whose names differ only in characters that some file systems reserve (or in `/` vs `_`): each keeps its own files
	for _, pr := range [][2]string{{"TestA/timeout:30s", "TestA/timeout?30s"}, {"TestA/<b>", "TestA/_b_"}, {"TestA/a*", "TestA/a|"}} {
		emit(c19Case{Name: pr[0], API: "ssnap", Vals: []string{"first test, call 1", "first test, call 2"}, New: []string{"first changed", "first test, call 2"}, Execs: 2, Other: pr[1]})
	}
	// the snapshot directory is reached through a symbolic link and is created by the first call
	for _, api := range []string{"ssnap", "sjson"} {
		v, n := []string{"first value", "second value", "third value"}, []string{"first value", "second CHANGED", "third value"}
		if api == "sjson" {
			v, n = []string{`{"k":1}`, `{"k":2}`, `{"k":3}`}, []string{`{"k":1}`, `{"k":20}`, `{"k":3}`}
		}
		for _, execs := range []int{1, 2} {
			emit(c19Case{Name: "TestA/s", API: api, Vals: v, New: n, Execs: execs, Link: true})
		}
	}
	// Filename / Ext options
	for _, f := range []string{"cust", "dir/cust", "cu%st"} {
		for _, ext := range []string{"", ".html", ".%d"} {
			emit(c19Case{Name: "TestA", API: "ssnap", Vals: []string{"<p>x</p>\r\n", "b"}, New: []string{"", "b"}, Execs: 2, File: f, Ext: ext})
			emit(c19Case{Name: "TestA/s", API: "sjson", Vals: []string{`{"a":1}`, `[1]`}, New: []string{`{}`, `[1]`}, Execs: 2, File: f, Ext: ext})
		}
	}
	// a rejected call (not a document / matcher error / not marshalable) at every position of a 3-call test: the others keep their files
	for _, n := range names[:3] {
		for _, bad := range []string{"!invalid", "!matcher", "!marshal", "!rawinvalid", "!rawcomma"} {
			for pos := 0; pos < 3; pos++ {
				vals := []string{`{"k":1}`, `{"k":2}`, `{"k":3}`}
				neu := []string{`{"k":10}`, `{"k":20}`, `{"k":30}`}
				vals[pos], neu[pos] = bad, bad
				emit(c19Case{Name: n, API: "sjson", Vals: vals, New: neu, Execs: 2})
				// rejected while recording, accepted in the update run (and the other way round)
				neu2 := []string{`{"k":10}`, `{"k":20}`, `{"k":30}`}
				emit(c19Case{Name: n, API: "sjson", Vals: vals, New: neu2, Execs: 2})
				vals3 := []string{`{"k":1}`, `{"k":2}`, `{"k":3}`}
				emit(c19Case{Name: n, API: "sjson", Vals: vals3, New: neu, Execs: 1})
			}
		}
	}
	// MatchStandaloneJSON: canonical pretty JSON, valid JSON
	jdocs := []string{`1`, `"a"`, `null`, `[]`, `{}`, `{"b":1,"a":[1,2,{"c":"é"}]}`, `"---"`, `["[TestA - 1]"]`, `{"a":"x\ny\r"}`, ` {"a" : 1 } `, "{\n\t\"a\":1\n}\n"}
	for _, n := range names {
		for _, d1 := range jdocs {
			for _, d2 := range jdocs[:4] {
				emit(c19Case{Name: n, API: "sjson", Vals: []string{d1, d2}, New: []string{d2, d1}, Execs: 2})
			}
		}
	}
}

func c19Run(c *vfCtx, cs c19Case) {
	dir := c.newWorld()
	if cs.Link {
		os.Mkdir(filepath.Join(dir, "real"), 0o755)
		if err := os.Symlink("real", filepath.Join(dir, "link")); err != nil {
			c.harnessErr("C19: symlink: %v", err)
			return
		}
		dir = filepath.Join(dir, "link", "pkg", "__snapshots__")
	}
	c.addSet("nontrivial", vfHashJSON(cs))
	class := ""
	if strings.Contains(cs.Name+cs.File+cs.Ext, "%") {
		class = "K5-percent-in-standalone-name"
	}
	base := cs.File
	if base == "" {
		base = strings.ReplaceAll(cs.Name, "/", "_")
	}
	ext := cs.Ext
	if ext == "" && cs.API == "sjson" {
		ext = ".json"
	}
	fileOf := func(k int) string { return fmt.Sprintf("%s_%d.snap%s", base, k, ext) }
	otherFiles := map[string]string{} // files of a second test (cs.Other), which the calls of cs.Name must leave alone
	mkcfg := func(upd string) *Config {
		o := []func(*Config){Dir(dir)}
		if cs.File != "" {
			o = append(o, Filename(cs.File))
		}
		if cs.Ext != "" {
			o = append(o, Ext(cs.Ext))
		}
		if upd == "true" {
			o = append(o, Update(true))
		}
		return WithConfig(o...)
	}
	do := func(cfg *Config, t *vfT, v string) {
		switch v {
		// calls that are rejected before a snapshot is taken: they still are the k-th standalone call of the test
		case "!invalid":
			cfg.MatchStandaloneJSON(t, `{"a":`)
			return
		case "!matcher":
			cfg.MatchStandaloneJSON(t, `{"a":1}`, match.Any("missing"), match.Type[string]("a"))
			return
		case "!marshal":
			cfg.MatchStandaloneJSON(t, map[string]any{"c": make(chan int)})
			return
		case "!rawinvalid":
			cfg.MatchStandaloneJSON(t, json.RawMessage(`{"a":[1,2`)) // a Go value whose own MarshalJSON output is checked by encoding/json
			return
		case "!rawcomma":
			cfg.MatchStandaloneJSON(t, json.RawMessage(`{"a":1,}`))
			return
		}
		if _, isGo := c19GoVal(v); cs.API == "sjson" && !isGo && len(v)%2 == 0 {
			// every other document is handed in as []byte: the caller's bytes are as they were afterwards
			in := []byte(v)
			cfg.MatchStandaloneJSON(t, in)
			if string(in) != v {
				c.violation("", fmt.Sprintf("MatchStandaloneJSON modified the []byte it was given: %q -> %q", vfClip(v), vfClip(string(in))), cs)
			}
		} else if cs.API == "sjson" {
			cfg.MatchStandaloneJSON(t, c19Input(v))
		} else {
			cfg.MatchStandaloneSnapshot(t, c19Input(v))
		}
	}
	expectFiles := func(vals []string, phase string) bool {
		obs := vfSnapDir(dir)
		n := 0
		for name, o := range obs {
			if !o.IsDir {
				n++
				_ = name
			}
		}
		expected := 0
		for k, v := range vals {
			if strings.HasPrefix(v, "!") {
				continue
			}
			expected++
			f := fileOf(k + 1)
			o, ok := obs[f]
			if !ok {
				var have []string
				for name, oo := range obs {
					if !oo.IsDir {
						have = append(have, name)
					}
				}
				c.violation(class, fmt.Sprintf("%s: call %d of %s should live alone in %s; directory holds %v", phase, k+1, cs.Name, f, vfSorted(have)), cs)
				return false
			}
			if cs.API == "sjson" {
				if !json.Valid(o.Data) {
					c.violation(class, fmt.Sprintf("%s: %s is not valid JSON: %q", phase, f, vfClip(string(o.Data))), cs)
					return false
				}
				var a, b any
				json.Unmarshal(o.Data, &a)
				json.Unmarshal([]byte(v), &b)
				if fmt.Sprint(a) != fmt.Sprint(b) || strings.HasSuffix(string(o.Data), "\n") {
					c.violation(class, fmt.Sprintf("%s: %s = %q does not hold the document %q (or ends with an added newline)", phase, f, vfClip(string(o.Data)), vfClip(v)), cs)
					return false
				}
			} else if want := c19Formatted(v); string(o.Data) != want {
				c.violation(class, fmt.Sprintf("%s: %s holds %q, the formatted value is %q", phase, f, vfClip(string(o.Data)), vfClip(want)), cs)
				return false
			}
		}
		if n != expected+len(otherFiles) {
			var have []string
			for name, oo := range obs {
				if !oo.IsDir {
					have = append(have, name)
				}
			}
			c.violation(class, fmt.Sprintf("%s: expected exactly %d files, directory holds %v", phase, expected, vfSorted(have)), cs)
			return false
		}
		return true
	}
	vfResetState(false, "", true)
	if cs.Other != "" {
		to := &vfT{name: cs.Other}
		for k := range cs.Vals {
			v := fmt.Sprintf("value %d of the other test", k+1)
			do(mkcfg(""), to, v)
			otherFiles[fmt.Sprintf("%s_%d.snap%s", strings.ReplaceAll(cs.Other, "/", "_"), k+1, ext)] = c19Formatted(v)
		}
		to.end()
		if len(to.errs) > 0 {
			c.violation(class, fmt.Sprintf("recording the other test %s failed: %v", cs.Other, to.errs), cs)
			return
		}
	}
	defer func() {
		for f, want := range otherFiles {
			if got, ok := vfSnapDir(dir)[f]; !ok || string(got.Data) != want {
				c.violation(class, fmt.Sprintf("test %s wrote %s = %q; after the calls of %s it holds %q (present=%v)", cs.Other, f, want, cs.Name, vfClip(string(got.Data)), ok), cs)
				return
			}
		}
	}()
	for e := 1; e <= cs.Execs; e++ {
		t := &vfT{name: cs.Name}
		cfg := mkcfg("")
		for k, v := range cs.Vals {
			mk := t.mark()
			do(cfg, t, v)
			c.count("transitions", 1)
			got := t.outcome(mk)
			want := "pass"
			if e == 1 {
				want = "added"
			}
			if strings.HasPrefix(v, "!") {
				want = "failed"
			}
			c.outcome(fmt.Sprintf("exec%d:%s", e, got))
			if got != want {
				c.violation(class, fmt.Sprintf("execution %d, call %d (%q): signalled %s, expected %s %v", e, k+1, vfClip(v), got, want, t.errs), cs)
				return
			}
		}
		t.end()
		if !expectFiles(cs.Vals, fmt.Sprintf("after execution %d", e)) {
			return
		}
	}
	c.addSet("states", vfHashDir(vfSnapDir(dir)))
	if cs.New == nil {
		return
	}
	// update mode replaces the file wholesale
	t := &vfT{name: cs.Name}
	cfg := mkcfg("true")
	for k, v := range cs.New {
		mk := t.mark()
		do(cfg, t, v)
		c.count("transitions", 1)
		got := t.outcome(mk)
		want := "updated"
		same := c19Formatted(v) == c19Formatted(cs.Vals[k])
		if cs.API == "sjson" {
			var a, b any
			json.Unmarshal([]byte(v), &a)
			json.Unmarshal([]byte(cs.Vals[k]), &b)
			same = fmt.Sprint(a) == fmt.Sprint(b)
		}
		if same {
			want = "pass"
		}
		if strings.HasPrefix(v, "!") {
			want = "failed"
		} else if strings.HasPrefix(cs.Vals[k], "!") {
			want = "added" // the slot of a call that was rejected in the recording executions is still free
		}
		if got != want {
			c.violation(class, fmt.Sprintf("update run, call %d (%q -> %q): signalled %s, expected %s %v", k+1, vfClip(cs.Vals[k]), vfClip(v), got, want, t.errs), cs)
			return
		}
	}
	t.end()
	eff := append([]string{}, cs.New...)
	for k, v := range eff {
		if strings.HasPrefix(v, "!") {
			eff[k] = cs.Vals[k] // a rejected call leaves the file of its slot as it was
		}
	}
	if !expectFiles(eff, "after the update run") {
		return
	}
	c.addSet("states", vfHashDir(vfSnapDir(dir)))
	// and replays
	t2 := &vfT{name: cs.Name}
	cfg2 := mkcfg("")
	vfPlantSentinel(dir)
	before := vfSnapDir(dir)
	for k, v := range cs.New {
		mk := t2.mark()
		do(cfg2, t2, v)
		if got := t2.outcome(mk); got != "pass" && !(strings.HasPrefix(v, "!") && got == "failed") {
			c.violation(class, fmt.Sprintf("replay after update, call %d: %s %v", k+1, got, t2.errs), cs)
			return
		}
	}
	t2.end()
	if d := vfDirDiff(before, vfSnapDir(dir), true); d != "" {
		c.violation(class, "replay modified the directory: "+d, cs)
	}
	_ = os.Remove
	_ = filepath.Join
}

func init() {
	vfRegister("C19", func(c *vfCtx, emit func(c19Case)) {
		c.rule = "all byte strings of <=2 (quick) / <=3 (thorough) tokens incl. CR, terminator, header-like, invalid UTF-8, format verbs; Go values; JSON documents; 1..3 calls x 1..3 executions x test names (nested, '%', '#01') x Filename/Ext options; then update with shorter/longer values"
		c19Gen(c, emit)
	}, c19Run)
}
