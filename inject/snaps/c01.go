//go:build verif

package snaps

import (
	"fmt"
	"os"
	"path/filepath"
	"strings"
)

// C01 — recorded snapshots replay cleanly (DESIGN §6 C01).

type c01Case struct {
	Family string       `json:"family"`
	Pre    []vfEntry    `json:"pre,omitempty"` // pre-existing entries of f.snap (Body holds the *value*)
	Tests  []vfTestExec `json:"tests"`
}

func c01Gen(c *vfCtx, emit func(c01Case)) {
	sigma, L, small := vfSigmaCore, 2, vfSigmaSmall
	if c.thorough() {
		sigma, L = vfSigmaFull, 2
		small = vfSigmaCore
	}
	bodies := vfBodies(sigma, L, 2)
	smallBodies := vfBodies(small, 2, 1)
	c.bound("sigma", vfQ(sigma))
	c.bound("max_lines", L)
	c.bound("bodies", len(bodies))
	c.bound("small_bodies", len(smallBodies))
	snap := func(v string) vfCall { return vfCall{API: "snap", Val: v} }

	// A: one test, one call, every body (incl. the 70 000-byte line)
	if c.thorough() {
		// plus every two-line body over the near-miss alphabet
		seenB := map[string]bool{}
		for _, b := range bodies {
			seenB[b] = true
		}
		for _, b := range vfBodies(vfSigmaNear, 2, 0) {
			if !seenB[b] {
				bodies = append(bodies, b)
			}
		}
		c.bound("near_miss_tokens", len(vfSigmaNear)-len(vfSigmaFull))
	}
	for _, b := range bodies {
		emit(c01Case{Family: "A1", Tests: []vfTestExec{{Name: "TestA", Calls: []vfCall{snap(b)}}}})
	}
	// longer bodies (3..5 lines) over a three-letter alphabet: runs of terminator lines, with a header line after them
	for _, b := range vfBodies([]string{"---", "a", "[TestA - 2]"}, 5, 0) {
		if strings.Count(b, "\n") >= 2 {
			emit(c01Case{Family: "A-runs", Tests: []vfTestExec{{Name: "TestA", Calls: []vfCall{snap(b), snap("a")}}}})
		}
	}
	for _, bl := range vfBoundaryLines() {
		emit(c01Case{Family: "A-boundary", Tests: []vfTestExec{{Name: "TestA", Calls: []vfCall{snap("head\n" + bl + "\ntail"), snap("a")}}}})
	}
	long := strings.Repeat("x", 70000)
	for _, b := range []string{long, long + "\n", "a\n" + long, long + "\n---\n" + long} {
		emit(c01Case{Family: "A-long", Tests: []vfTestExec{{Name: "TestA", Calls: []vfCall{snap(b), snap("a")}}}})
	}
	// a single line of one and of two MiB (a minified bundle, a base64 payload), alone and followed by another entry of the same file
	for _, n := range []int{1 << 20, 1<<21 + 1} {
		huge := strings.Repeat("z", n)
		emit(c01Case{Family: "A-mib", Tests: []vfTestExec{{Name: "TestA", Calls: []vfCall{snap(huge), snap("a")}}, {Name: "TestB", Calls: []vfCall{snap("b")}}}})
		emit(c01Case{Family: "A-mib", Tests: []vfTestExec{{Name: "TestA", Calls: []vfCall{snap("k: " + huge + "\nend"), {API: "json", Val: `{"a":"` + huge + `"}`}}}}})
	}
	// A2: one test, two calls, all ordered pairs of bodies
	// thorough: all one-line bodies over the full alphabet plus all two-line bodies over the core one
	pairBodies := []string{}
	{
		seen := map[string]bool{}
		for _, b := range append(vfBodies(vfSigmaNear, 1, 2), vfBodies(vfSigmaCore, 2, 1)...) {
			if !seen[b] {
				seen[b] = true
				pairBodies = append(pairBodies, b)
			}
		}
	}
	if !c.thorough() {
		// quick: all one-line bodies over the core alphabet plus all two-line bodies over the small one
		seen := map[string]bool{}
		pairBodies = nil
		for _, b := range append(vfBodies(sigma, 1, 1), vfBodies(small, 2, 1)...) {
			if !seen[b] {
				seen[b] = true
				pairBodies = append(pairBodies, b)
			}
		}
	}
	c.bound("pair_bodies", len(pairBodies))
	for _, b1 := range pairBodies {
		for _, b2 := range pairBodies {
			emit(c01Case{Family: "A2", Tests: []vfTestExec{{Name: "TestA", Calls: []vfCall{snap(b1), snap(b2)}}}})
		}
	}
	tinyBodies := vfBodies(vfSigmaSmall, 2, 1)
	if !c.thorough() {
		tinyBodies = vfBodies(small, 1, 1)
	}
	// B: pre-existing file with 1..2 entries of another test, bodies over Σ, then TestA with 1..2 calls
	for pi, p1 := range smallBodies {
		if c.thorough() && pi >= 2*len(tinyBodies) {
			break
		}
		for bi, b1 := range smallBodies {
			if c.thorough() && bi >= len(tinyBodies) {
				break // thorough: B2 would otherwise be |small|^2 x |tiny|
			}
			emit(c01Case{Family: "B1", Pre: []vfEntry{{ID: "TestB - 1", Body: p1}},
				Tests: []vfTestExec{{Name: "TestA", Calls: []vfCall{snap(b1)}}}})
			for _, b2 := range tinyBodies {
				emit(c01Case{Family: "B2", Pre: []vfEntry{{ID: "TestB - 1", Body: p1}},
					Tests: []vfTestExec{{Name: "TestA", Calls: []vfCall{snap(b1), snap(b2)}}}})
			}
		}
	}
	if c.thorough() {
		for _, p1 := range tinyBodies {
			for _, p2 := range tinyBodies {
				for _, b1 := range tinyBodies {
					emit(c01Case{Family: "B3", Pre: []vfEntry{{ID: "TestB - 1", Body: p1}, {ID: "TestAB - 1", Body: p2}},
						Tests: []vfTestExec{{Name: "TestA", Calls: []vfCall{snap(b1), snap("b")}}}})
				}
			}
		}
	}
	// C: two tests sharing the file (child, name-prefix sibling, other), 1 call each + second execution order swapped
	// (incl. names with characters that mean something to fmt, regexp, glob or the file format)
	names := [][2]string{{"TestA", "TestA/s"}, {"TestA", "TestAB"}, {"TestA", "TestB"}, {"TestA/s", "TestA/s#01"}, {"TestA/50%_off", "TestA/%d_%s"}, {"TestA/[x]", "TestA/a:b*?"}}
	for _, nn := range names {
		for _, b1 := range smallBodies {
			for _, b2 := range smallBodies {
				emit(c01Case{Family: "C", Tests: []vfTestExec{
					{Name: nn[0], Calls: []vfCall{snap(b1)}}, {Name: nn[1], Calls: []vfCall{snap(b2)}}}})
			}
		}
	}
	// D: ordinal-prefix family: 11..12 calls so that [T - 1] is a prefix of [T - 10], [T - 11]
	for _, special := range []string{"a", "[TestA - 1]", "[TestA - 10]", "[TestA - 11]", "[TestA - 1", "TestA - 10]", "---", ""} {
		for pos := 0; pos < 12; pos += 3 {
			var calls []vfCall
			for k := 0; k < 12; k++ {
				v := fmt.Sprintf("v%d", k+1)
				if k == pos {
					v = special
				}
				calls = append(calls, snap(v))
			}
			emit(c01Case{Family: "D", Tests: []vfTestExec{{Name: "TestA", Calls: calls}}})
		}
	}
	// E: MatchSnapshot, MatchJSON and MatchYAML entries sharing one file, every order of three calls
	vals := map[string][]string{
		"snap": {"a", "---", "{\n \"a\": 1\n}", "[TestA - 2]"},
		"json": {`{"a":1}`, `{"b":"---","a":[1,2]}`, `"---"`, `[]`},
		"yaml": {"a: 1\n", "a: 1\n---\nb: 2\n", "- x\n- y", "k: |\n  ---\n  t\n", "# c\na: 1\n\n"},
	}
	apis := []string{"snap", "json", "yaml"}
	for _, a1 := range apis {
		for _, a2 := range apis {
			for _, a3 := range apis {
				for _, v1 := range vals[a1] {
					for _, v2 := range vals[a2] {
						for _, v3 := range vals[a3] {
							if !c.thorough() && (v2 != vals[a2][0] && v3 != vals[a3][0] && v1 != vals[a1][0]) {
								continue
							}
							emit(c01Case{Family: "E", Tests: []vfTestExec{{Name: "TestA", Calls: []vfCall{
								{API: a1, Val: v1}, {API: a2, Val: v2}, {API: a3, Val: v3}}}}})
						}
					}
				}
			}
		}
	}
}

func c01Run(c *vfCtx, cs c01Case) {
	dir := c.newWorld()
	vfResetState(false, "", true)
	m := vfNewModel(false, "")
	for _, p := range cs.Pre {
		m.preload("f.snap", p.ID, p.Body)
	}
	vfWriteModelFiles(dir, m)
	nontrivial := len(cs.Pre) > 0 || len(cs.Tests) > 1
	modelKnows := true // false when a call's stored text is not the identity of its input (MatchJSON)
	for _, te := range cs.Tests {
		for _, cl := range te.Calls {
			if vfSpecial(cl.Val) {
				nontrivial = true
			}
			if cl.API == "json" {
				modelKnows = false
			}
		}
	}
	if nontrivial {
		c.addSet("nontrivial", vfHashJSON(cs))
	}
	class := func() string {
		if vfClassK2(m) {
			return "K2-header-line-in-body"
		}
		return ""
	}
	// ---- run 1: record
	obs1 := vfRunTests(dir, m, cs.Tests)
	c.count("transitions", int64(len(obs1)))
	c.addSet("states", vfWorldKey(dir))
	for i, o := range obs1 {
		c.outcome("record:" + o.Got)
		if o.Got != "added" {
			c.violation(class(), fmt.Sprintf("recording run: call %d (%s %q in %s) signalled %s (%s), a fresh slot must be added", i+1, o.Call.API, vfClip(o.Call.Val), o.Test, o.Got, vfClip(o.ErrText)), cs)
			return
		}
	}
	if modelKnows {
		if p := vfCheckDisk(dir, m); p != "" {
			c.violation(class(), "after the recording run: "+p, cs)
			return
		}
	} else {
		// ids only: the stored text of JSON entries is C14's business
		got, err := vfParse(vfSnapDir(dir)["f.snap"].Data)
		want := m.entries("f.snap")
		ok := err == nil && len(got) == len(want)
		for i := 0; ok && i < len(got); i++ {
			ok = got[i].ID == want[i].ID
		}
		if !ok {
			c.violation(class(), fmt.Sprintf("after the recording run the file does not hold one well-formed entry per call: %v %s", err, vfShowEntries(got)), cs)
			return
		}
	}
	// ---- run 2: a later run (fresh process state), same calls
	vfResetState(false, "", true)
	vfPlantSentinel(dir)
	before := vfSnapDir(dir)
	m2 := vfNewModel(false, "")
	m2.files, m2.sfiles = m.files, m.sfiles
	obs2 := vfRunTests(dir, m2, cs.Tests)
	c.count("transitions", int64(len(obs2)))
	c.addSet("states", vfWorldKey(dir))
	for i, o := range obs2 {
		c.outcome("replay:" + o.Got)
		if o.Got != "pass" {
			c.violation(class(), fmt.Sprintf("replay: call %d (%s %q in %s) signalled %s: %s", i+1, o.Call.API, vfClip(o.Call.Val), o.Test, o.Got, vfClip(o.ErrText)), cs)
			return
		}
		if len(o.Muts) > 0 {
			c.violation(class(), fmt.Sprintf("replay: call %d performed mutating file operations: %s", i+1, vfShowOps(o.Muts)), cs)
			return
		}
	}
	if d := vfDirDiff(before, vfSnapDir(dir), true); d != "" {
		c.violation(class(), "replay changed the snapshot directory: "+d, cs)
		return
	}
	if thin := map[bool]uint64{false: 6, true: 3}[c.thorough()]; cs.Family == "A2" && vfHashJSON(cs)%thin != 0 {
		return // the two phases below cover every sixth (quick) / third (thorough) program of the largest family, and every program of the others
	}
	replay := func(what string, reset bool) bool {
		if reset {
			vfResetState(false, "", true)
		}
		before := vfSnapDir(dir)
		mr := vfNewModel(false, "")
		mr.files, mr.sfiles = m.files, m.sfiles
		obs := vfRunTests(dir, mr, cs.Tests)
		c.count("transitions", int64(len(obs)))
		for i, o := range obs {
			if o.Got != "pass" || len(o.Muts) > 0 {
				c.violation(class(), fmt.Sprintf("%s: call %d (%s %q in %s) signalled %s %s, file operations [%s]", what, i+1, o.Call.API, vfClip(o.Call.Val), o.Test, o.Got, vfClip(o.ErrText), vfShowOps(o.Muts)), cs)
				return false
			}
		}
		if d := vfDirDiff(before, vfSnapDir(dir), true); d != "" {
			c.violation(class(), what+" changed the snapshot directory: "+d, cs)
			return false
		}
		return true
	}
	// ---- executions 2 and 3 of the same tests in the SAME process (what -count does): nothing is reset in between
	for exec := 2; exec <= 3; exec++ {
		if !replay(fmt.Sprintf("execution %d in one process", exec), false) {
			return
		}
	}
	// ---- still in that process: every value is replaced by one of the SAME formatted length under Update(true), and the new values
	// are replayed (a later run replays what the latest recording run stored; a reader that trusts the file size sees no change)
	same := func(v string) (string, bool) {
		for _, pr := range [][2]string{{"a", "b"}, {"b", "a"}, {"x", "y"}, {"1", "2"}, {"v", "w"}} {
			if strings.Contains(v, pr[0]) {
				return strings.Replace(v, pr[0], pr[1], 1), true
			}
		}
		return "", false
	}
	var updTests, newTests []vfTestExec
	okSame := true
	for _, te := range cs.Tests {
		u, n := vfTestExec{Name: te.Name}, vfTestExec{Name: te.Name}
		for _, cl := range te.Calls {
			nv, ok := same(cl.Val)
			if !ok || (cl.API != "snap" && cl.API != "") {
				okSame = false
				break
			}
			uc, nc := cl, cl
			uc.Val, uc.Upd, nc.Val = nv, "true", nv
			u.Calls, n.Calls = append(u.Calls, uc), append(n.Calls, nc)
		}
		updTests, newTests = append(updTests, u), append(newTests, n)
	}
	if okSame && !vfClassK2(m) {
		mu := vfNewModel(false, "")
		mu.files, mu.sfiles = m.files, m.sfiles
		obs := vfRunTests(dir, mu, updTests)
		c.count("transitions", int64(len(obs)))
		for i, o := range obs {
			if o.Got != o.Want {
				c.violation(class(), fmt.Sprintf("same-length update in the same process: call %d (%q in %s) signalled %s, model %s: %s", i+1, vfClip(o.Call.Val), o.Test, o.Got, o.Want, vfClip(o.ErrText)), cs)
				return
			}
		}
		saved := cs.Tests
		cs2 := cs
		cs2.Tests = newTests
		before := vfSnapDir(dir)
		mr := vfNewModel(false, "")
		mr.files, mr.sfiles = mu.files, mu.sfiles
		obs = vfRunTests(dir, mr, newTests)
		c.count("transitions", int64(len(obs)))
		for i, o := range obs {
			if o.Got != "pass" || len(o.Muts) > 0 {
				c.violation(class(), fmt.Sprintf("after a same-length update in the same process, replay of the updated values: call %d (%q in %s) signalled %s %s, file operations [%s]", i+1, vfClip(o.Call.Val), o.Test, o.Got, vfClip(o.ErrText), vfShowOps(o.Muts)), cs)
				return
			}
		}
		if d := vfDirDiff(before, vfSnapDir(dir), true); d != "" {
			c.violation(class(), "replay of the updated values changed the snapshot directory: "+d, cs)
			return
		}
		// restore the recorded values for the permutation phase (same lengths again)
		var back []vfTestExec
		for _, te := range saved {
			b := vfTestExec{Name: te.Name}
			for _, cl := range te.Calls {
				bc := cl
				bc.Upd = "true"
				b.Calls = append(b.Calls, bc)
			}
			back = append(back, b)
		}
		mb := vfNewModel(false, "")
		mb.files, mb.sfiles = mr.files, mr.sfiles
		vfRunTests(dir, mb, back)
		m.files, m.sfiles = mb.files, mb.sfiles
	}
	// ---- "all pre-existing well-formed contents": the same entries in every other order (all permutations up to 3 entries, reversal and rotation beyond)
	es, err := vfParse(vfSnapDir(dir)["f.snap"].Data)
	if err != nil || len(es) < 2 {
		return
	}
	var perms [][]int
	if len(es) == 2 || (len(es) == 3 && c.thorough()) {
		perms = c10Perms(len(es))[1:]
	} else {
		rev, rot := make([]int, len(es)), make([]int, len(es))
		for i := range es {
			rev[i], rot[i] = len(es)-1-i, (i+1)%len(es)
		}
		perms = [][]int{rev, rot}
	}
	for _, p := range perms {
		var pe []vfEntry
		for _, i := range p {
			pe = append(pe, es[i])
		}
		if err := os.WriteFile(filepath.Join(dir, "f.snap"), vfRender(pe), 0o644); err != nil {
			panic(err)
		}
		c.count("permuted_files", 1)
		if !replay(fmt.Sprintf("replay against the same entries stored in the order %v", c05IDs(pe)), true) {
			return
		}
	}
}

func init() {
	vfRegister("C01", func(c *vfCtx, emit func(c01Case)) {
		c.rule = "every program of the families A1/A2/B/C/D/E over the line-token alphabet (DESIGN §3.1) is recorded, replayed in a fresh process state, executed twice more in that same process state, and replayed against other orders of the recorded entries (2 entries: the other order; 3: all permutations in thorough; otherwise reversal and rotation), on the real code; " +
			"non-trivial = distinct programs that contain a special token (blank/terminator/escape/header-like/non-UTF-8/long line), a pre-existing entry or two tests"
		c01Gen(c, emit)
	}, c01Run)
}
