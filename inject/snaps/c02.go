//go:build verif

package snaps

import (
	"bytes"
	"encoding/json"
	"fmt"
	"os"
	"path/filepath"
	"strconv"
	"strings"

	"github.com/goccy/go-yaml"
)

// C02 — every change of the formatted value is reported (DESIGN §6 C02).
// Trace: record(s); replay(r) with r != s; replay(s).

type c02Case struct {
	API   string `json:"api"`
	S     string `json:"s"`
	R     string `json:"r"`
	Color bool   `json:"color"`
	Mode  string `json:"mode"` // how updating is disabled: unset | false | ci | envclean | envyes
}

type c02CaseJ c02Case

func (cs c02Case) MarshalJSON() ([]byte, error) {
	j := c02CaseJ(cs)
	j.S, j.R = vfEnc(j.S), vfEnc(j.R)
	return json.Marshal(j)
}

func (cs *c02Case) UnmarshalJSON(b []byte) error {
	var j c02CaseJ
	if err := vfUnmarshalStrict(b, &j); err != nil {
		return err
	}
	j.S, j.R = vfDec(j.S), vfDec(j.R)
	*cs = c02Case(j)
	return nil
}

var c02JSONDocs = []string{`1`, `2`, `"a"`, `"---"`, `"/-/-/-/"`, `null`, `true`, `[]`, `{}`, `[1]`, `[1,2]`, `[2,1]`, `{"a":1}`, `{"a":2}`, `{"b":1}`,
	`{"a":1,"b":2}`, `{"a":{"b":1}}`, `{"a":[1]}`, `"a\\u00ffb"`, `"a b"`, `"a  b"`, `1.0`, `1e1`, `10`,
	// different texts that decode to the same float64 / the same Go value
	`9007199254740993`, `9007199254740992`, `{"id":1234567890123456789}`, `{"id":1234567890123456788}`, `0.1`, `0.1000000000000000000001`, `{"a":1,"a":2}`, `[1,1,1,1,1,1,1,1]`, `[1,1,1,1,1,1,1,1,1]`}

var c02YAMLDocs = []string{"a: 1", "a: 1\n", "a: 1\n\n", "a: 2\n", "a:  1\n", "a: 1 # c\n", "# c\na: 1\n", "a: 1\n---\nb: 2\n", "/-/-/-/\n", "---\n", "a\n---\nb\n", "a\n/-/-/-/\nb\n",
	"- x\n", "- x\n- y\n", "k: |\n  ---\n", "k: |\n  /-/-/-/\n", "a: \"1\"\n", "b: 1\n"}

func c02Gen(c *vfCtx, emit func(c02Case)) {
	sigma := vfSigmaCore
	if c.thorough() {
		sigma = vfSigmaFull
	}
	sigmaS := append(append([]string{}, sigma...), "a\r", "\r") // standalone files: CR is in scope
	bodies := vfBodies(sigma, 2, 1)
	small := vfBodies(vfSigmaSmall, 2, 1)
	sbodies := vfBodies(sigmaS, 2, 1)
	if !c.thorough() {
		sbodies = vfBodies(append(append([]string{}, vfSigmaSmall...), "a\r", "\r", "\xff", "\xfe", "b"), 2, 1)
	}
	c.bound("sigma", vfQ(sigma))
	c.bound("bodies", len(bodies))
	c.bound("small_bodies", len(small))
	c.bound("standalone_bodies", len(sbodies))
	c.bound("json_docs", len(c02JSONDocs))
	c.bound("yaml_docs", len(c02YAMLDocs))
	// YAML texts are kept iff the YAML library accepts them as input
	var ydocs []string
	for _, d := range c02YAMLDocs {
		var out any
		if yaml.Unmarshal([]byte(d), &out) == nil {
			ydocs = append(ydocs, d)
		}
	}
	c.bound("yaml_docs_accepted", len(ydocs))
	pairs := func(api string, set []string, color bool, mode string) {
		for _, s := range set {
			for _, r := range set {
				if s != r {
					emit(c02Case{API: api, S: s, R: r, Color: color, Mode: mode})
				}
			}
		}
	}
	if c.thorough() {
		near := vfBodies(vfSigmaNear, 1, 1)
		c.bound("near_miss_bodies", len(near))
		for _, color := range []bool{false, true} {
			pairs("snap", near, color, "unset")
			var nearY []string
			for _, d := range near {
				var out any
				if !vfHasTrailingCR(d) && yaml.Unmarshal([]byte(d), &out) == nil {
					nearY = append(nearY, d)
				}
			}
			pairs("yaml", nearY, color, "unset")
		}
	}
	for _, color := range []bool{false, true} {
		pairs("snap", bodies, color, "unset")
		pairs("ssnap", sbodies, color, "unset")
		pairs("json", c02JSONDocs, color, "unset")
		pairs("sjson", c02JSONDocs, color, "unset")
		pairs("yaml", ydocs, color, "unset")
	}
	for _, mode := range []string{"false", "ci", "envclean", "envyes"} {
		for _, color := range []bool{false, true} {
			pairs("snap", small, color, mode)
			pairs("ssnap", small, color, mode)
			pairs("json", c02JSONDocs[:12], color, mode)
			pairs("yaml", ydocs[:8], color, mode)
		}
	}
	// a special token right at a reader's buffer boundary: the stored text must not be read back truncated there
	for _, bl := range vfBoundaryLines() {
		for _, tok := range []string{"---", "/-/-/-/", "[TestA - 2]"} {
			if i := strings.Index(bl, tok); i > 0 {
				for _, color := range []bool{false, true} {
					emit(c02Case{API: "snap", S: bl + "\ntail", R: bl[:i], Color: color, Mode: "unset"})
					emit(c02Case{API: "snap", S: "head\n" + bl + "\ntail", R: "head\n" + bl[:i], Color: color, Mode: "unset"})
				}
			}
		}
	}
	// values larger than reader/writer buffers, differing in the last byte or in one late line
	for _, b := range vfBigValues() {
		for _, api := range []string{"snap", "ssnap", "yaml"} {
			v := b
			if api == "yaml" {
				v = "k: |\n  " + strings.ReplaceAll(strings.ReplaceAll(b, "---", "- -"), "\n", "\n  ") + "\n"
			}
			for _, color := range []bool{false, true} {
				emit(c02Case{API: api, S: v, R: v[:len(v)-2] + "Z" + v[len(v)-1:], Color: color, Mode: "unset"})
				emit(c02Case{API: api, S: v[:len(v)-2] + "Z" + v[len(v)-1:], R: v, Color: color, Mode: "unset"})
			}
		}
	}
	// long texts (hunk headers, popular-line heuristic of the line differ)
	for _, pr := range vfLongTexts(c.thorough()) {
		for _, color := range []bool{false, true} {
			emit(c02Case{API: "snap", S: pr[0], R: pr[1], Color: color, Mode: "unset"})
			emit(c02Case{API: "ssnap", S: pr[0], R: pr[1], Color: color, Mode: "unset"})
		}
	}
	// single-line pairs that differ only in bytes which are not valid UTF-8, or only in whitespace
	tricky := []string{"a\xffb", "a\xfeb", "a\xff\xfeb", "a\xc3b", "a\xc3\x28b", "\xff", "\xfe", "a b", "a\tb", "a  b", "a b", "a​b", "ab", "a\xef\xbf\xbdb"}
	for _, color := range []bool{false, true} {
		pairs("snap", tricky, color, "unset")
		pairs("ssnap", tricky, color, "unset")
	}
	// the same JSON document recorded under other format options (indent, key order, width) than the ones it is matched with:
	// the stored TEXT differs, so the call fails (it is not for the library to decide that two layouts are the same snapshot)
	for _, api := range []string{"json", "sjson"} {
		for _, doc := range []string{`{"b":[1,2,3],"a":{"c":1}}`, `[{"k":"v"},2]`, `{"z":1,"a":2}`} {
			for _, color := range []bool{false, true} {
				for _, lay := range []string{"layout-indent4", "layout-unsorted", "layout-width"} {
					emit(c02Case{API: api, S: doc, R: doc, Color: color, Mode: lay})
				}
			}
		}
	}
	// the recorded FILE as other tools leave it: without the final newline, or with CR LF line ends (a checkout with autocrlf)
	for _, api := range []string{"snap", "json", "yaml"} {
		vals := map[string][2]string{"snap": {"a\nb", "a\nc"}, "json": {`{"a":1}`, `{"a":2}`}, "yaml": {"a: 1\nb: 2\n", "a: 1\nb: 3\n"}}[api]
		for _, color := range []bool{false, true} {
			// file-swapped: the process looked the slot up before (it held r then); the file is then replaced from outside by one of the
			// same size with the same modification time (cp -p, rsync -t, a checkout within the clock's resolution) that holds s
			for _, fm := range []string{"file-nofinalnl", "file-crlf", "file-swapped"} {
				emit(c02Case{API: api, S: vals[0], R: vals[1], Color: color, Mode: fm})
			}
		}
	}
	// stored texts with a carriage return at the end of a line (known finding K14: the line reader drops it; a line `---\r` even ends the entry)
	crs := []string{"a", "a\r", "a\r\nb", "a\nb", "a\n---\r\nb", "a\n---\r", "---\r\nb", "a\r\n", "a\n", "a\r\r\nb", "a\r\nb\r"}
	for _, color := range []bool{false, true} {
		pairs("snap", crs, color, "unset")
	}
	// texts that differ only in terminal control sequences (the report itself is made of such sequences when colours are on),
	// in other control characters, or in invisible/combining code points
	ctl := []string{"ERROR: disk full", "\x1b[31mERROR\x1b[0m: disk full", "\x1b[33mERROR\x1b[0m: disk full", "\x1b[1;31mERROR\x1b[m: disk full", "ERROR\x1b[0m: disk full",
		"ERROR\b: disk full", "ERROR\x00: disk full", "ERROR\u200d: disk full", "ERROR\u0301: disk full", "\x1b]0;t\x07ERROR: disk full", "a\nERROR: disk full", "a\n\x1b[31mERROR\x1b[0m: disk full"}
	for _, color := range []bool{false, true} {
		pairs("snap", ctl, color, "unset")
		pairs("ssnap", ctl, color, "unset")
	}
	// a text holding an invisible or non-printable character against the same text with that character SPELLED OUT the way tools
	// print it (Go / JSON escapes, caret notation, percent and entity encodings): different bytes, so different snapshots
	for _, raw := range []string{"jane\u200bdoe", "level=\x1b[31merror", "key\x00value", "10\u00a0km", "id: \xff\xfe", "bell\a", "a\tb", "del\x7f", "line\u2028sep"} {
		q, qa := strconv.Quote(raw), strconv.QuoteToASCII(raw)
		spelled := []string{raw, q[1 : len(q)-1], qa[1 : len(qa)-1], strings.ToUpper(qa[1 : len(qa)-1])}
		var caret, pct, ent strings.Builder
		for _, b := range []byte(raw) {
			switch {
			case b < 0x20 || b == 0x7f:
				caret.WriteString("^" + string(rune(b^0x40)))
				fmt.Fprintf(&pct, "%%%02X", b)
				fmt.Fprintf(&ent, "&#%d;", b)
			default:
				caret.WriteByte(b)
				pct.WriteByte(b)
				ent.WriteByte(b)
			}
		}
		spelled = append(spelled, caret.String(), pct.String(), ent.String())
		var set []string
		seen := map[string]bool{}
		for _, x := range spelled {
			if !seen[x] {
				seen[x] = true
				set = append(set, x)
			}
		}
		for ci, color := range []bool{false, true} {
			pairs("snap", set, color, "unset")
			if ci == 0 {
				pairs("ssnap", set, color, "unset")
				pairs("snap", []string{"head\n" + set[0] + "\ntail", "head\n" + set[1] + "\ntail", "head\n" + set[2] + "\ntail"}, color, "unset")
			}
		}
	}
}

// c02Equivalent: K1's predicate — the two values differ but become equal once
// whole lines `/-/-/-/` are mapped to `---` (the escape is not injective).
// c02Layout: record the document through a Config with non-default JSON format options, match the same document through the
// default Config. If the two stored texts differ in any byte the call must fail and modify nothing.
func c02Layout(c *vfCtx, cs c02Case) {
	dir := c.newWorld()
	vfResetState(false, "", true)
	jc := map[string]JSONConfig{
		"layout-indent4":  {Indent: "    ", SortKeys: true, Width: 80},
		"layout-unsorted": {Indent: " ", SortKeys: false, Width: 80},
		"layout-width":    {Indent: " ", SortKeys: true, Width: 4},
	}[cs.Mode]
	rec := WithConfig(Dir(dir), Filename("f"), JSON(jc))
	def := WithConfig(Dir(dir), Filename("f"))
	do := func(cfg *Config, t *vfT) {
		if cs.API == "sjson" {
			cfg.MatchStandaloneJSON(t, cs.S)
		} else {
			cfg.MatchJSON(t, cs.S)
		}
	}
	t := &vfT{name: "TestA"}
	do(rec, t)
	t.end()
	// what the default options would have stored, in a second directory
	dir2 := filepath.Join(c.scratch, "w2")
	os.RemoveAll(dir2)
	os.MkdirAll(dir2, 0o755)
	t0 := &vfT{name: "TestA"}
	do(WithConfig(Dir(dir2), Filename("f")), t0)
	t0.end()
	c.count("transitions", 2)
	if len(t.errs)+len(t0.errs) > 0 {
		c.harnessErr("C02 layout: recording failed: %v %v", t.errs, t0.errs)
		return
	}
	if string(vfAllBytes(dir)) == string(vfAllBytes(dir2)) {
		c.count("pairs_formatting_identically", 1)
		return // these options do not change the text of this document
	}
	c.addSet("nontrivial", vfHashJSON(cs))
	vfPlantSentinel(dir)
	before := vfSnapDir(dir)
	vfResetState(false, "", !cs.Color)
	t2 := &vfT{name: "TestA"}
	mk := t2.mark()
	ops := vfLogged(func() { do(def, t2) })
	t2.end()
	c.count("transitions", 1)
	got := t2.outcome(mk)
	c.outcome("layout:" + got)
	c.addSet("states", vfHash(cs.Mode, cs.S, got))
	if got != "failed" {
		c.violation("", fmt.Sprintf("%s of %q: stored under JSON options %s, matched under the default ones (the stored text differs): the call signalled %s instead of exactly one failure", cs.API, cs.S, cs.Mode, got), cs)
		return
	}
	if muts := vfMutOps(ops); len(muts) > 0 || vfDirDiff(before, vfSnapDir(dir), true) != "" {
		c.violation("", fmt.Sprintf("mismatching call (layout) modified the snapshot directory: %s", vfShowOps(muts)), cs)
	}
}

func c02K1(s, r string) bool {
	un := func(x string) string {
		ls := strings.Split(x, "\n")
		for i, l := range ls {
			if l == "/-/-/-/" {
				ls[i] = "---"
			}
		}
		return strings.Join(ls, "\n")
	}
	return s != r && un(s) == un(r)
}

type c02Recorded struct {
	key    string
	dir    string
	before vfDirObs
}

var c02Cache c02Recorded

func c02Run(c *vfCtx, cs c02Case) {
	ci, env, upd := false, "", ""
	fileMode := ""
	if strings.HasPrefix(cs.Mode, "file-") {
		fileMode = cs.Mode
	}
	switch cs.Mode {
	case "false":
		upd = "false"
	case "ci":
		ci, env = true, "true"
	case "envclean":
		env = "clean"
	case "envyes":
		env = "yes"
	}
	call := func(v string) vfCall { return vfCall{API: cs.API, Val: v, Upd: upd} }
	if strings.HasPrefix(cs.Mode, "layout-") {
		c02Layout(c, cs)
		return
	}
	if vfFormat(call(cs.S)) == vfFormat(call(cs.R)) {
		// the property speaks about the FORMATTED value: two values that format identically are not a pair
		c.count("pairs_formatting_identically", 1)
		return
	}
	key := cs.API + "\x00" + cs.S + "\x00" + fileMode
	if vfSpecial(cs.S) || vfSpecial(cs.R) {
		c.addSet("nontrivial", vfHashJSON(cs))
	}
	class := ""
	multi := cs.API == "snap" || cs.API == "yaml"
	if multi && c02K1(vfFormat(call(cs.S)), vfFormat(call(cs.R))) {
		class = "K1-escape-not-injective"
	}
	if multi && vfHasTrailingCR(vfFormat(call(cs.S))) {
		// K14: the STORED text has a CR at the end of a line
		class = "K14-stored-cr-at-end-of-line"
	}
	// record(s) once per (api, s): replays that behave do not modify anything
	if c02Cache.key != key {
		var swapIn []byte
		if fileMode == "file-swapped" {
			// what the file looks like when it holds s: recorded by the library itself, in a world of its own
			d0 := c.newWorld()
			vfResetState(false, "", true)
			t0 := &vfT{name: "TestA"}
			vfCall{API: cs.API, Val: cs.S}.do(t0, d0)
			t0.end()
			swapIn, _ = os.ReadFile(filepath.Join(d0, "f.snap"))
		}
		dir := c.newWorld()
		vfResetState(false, "", true)
		t := &vfT{name: "TestA"}
		mk := t.mark()
		first := cs.S
		if fileMode == "file-swapped" {
			first = cs.R
		}
		vfCall{API: cs.API, Val: first}.do(t, dir)
		t.end()
		c.count("transitions", 1)
		if o := t.outcome(mk); o != "added" {
			c.violation(class, fmt.Sprintf("record(%q) signalled %s %v", vfClip(cs.S), o, t.errs), cs)
			c02Cache.key = ""
			return
		}
		if fileMode == "file-swapped" {
			p := filepath.Join(dir, "f.snap")
			vfPlantSentinel(dir) // (sets the modification times; done before the look-up so that the times really are the same)
			st, err := os.Stat(p)
			t1 := &vfT{name: "TestA"}
			vfCall{API: cs.API, Val: cs.R}.do(t1, dir) // the look-up before the swap
			t1.end()
			old, _ := os.ReadFile(p)
			nb, err2 := swapIn, error(nil)
			if err != nil || err2 != nil || len(t1.errs) > 0 || len(nb) != len(old) || bytes.Equal(nb, old) {
				c.harnessErr("C02 file-swapped setup (%s): %v %v %v; %q / %q", cs.API, err, err2, t1.errs, old, nb)
				return
			}
			os.WriteFile(p, nb, 0o644)
			os.Chtimes(p, st.ModTime(), st.ModTime())
			vfResetState(false, "", true)
		} else if fileMode != "" {
			p := filepath.Join(dir, "f.snap")
			b, _ := os.ReadFile(p)
			if fileMode == "file-nofinalnl" {
				b = bytes.TrimSuffix(b, []byte("\n"))
			} else {
				b = bytes.ReplaceAll(b, []byte("\n"), []byte("\r\n"))
			}
			os.WriteFile(p, b, 0o644)
		}
		vfPlantSentinel(dir)
		c02Cache = c02Recorded{key: key, dir: dir, before: vfSnapDir(dir)}
	}
	dir := c02Cache.dir
	// replay(r)
	vfResetState(ci, env, !cs.Color)
	t := &vfT{name: "TestA"}
	mk := t.mark()
	ops := vfLogged(func() { call(cs.R).do(t, dir) })
	t.end()
	c.count("transitions", 1)
	got := t.outcome(mk)
	c.outcome("replay(r):" + got)
	bad := false
	if got != "failed" {
		c.violation(class, fmt.Sprintf("stored %q, received %q (%s, colours=%v, update disabled by %s): the call signalled %s instead of exactly one failure", vfClip(cs.S), vfClip(cs.R), cs.API, cs.Color, cs.Mode, got), cs)
		bad = true
	}
	if muts := vfMutOps(ops); len(muts) > 0 {
		c.violation(class, fmt.Sprintf("mismatching call performed mutating file operations: %s", vfShowOps(muts)), cs)
		bad = true
	}
	after := vfSnapDir(dir)
	c.addSet("states", vfHash(fmt.Sprint(vfHashDir(after)), cs.R, fmt.Sprint(cs.Color), cs.Mode))
	if d := vfDirDiff(c02Cache.before, after, true); d != "" {
		c.violation(class, "mismatching call modified the snapshot directory: "+d, cs)
		c02Cache.key = ""
		return
	}
	if bad {
		return
	}
	// replay(s): nothing was modified, so the recorded value still passes
	vfResetState(ci, env, !cs.Color)
	t2 := &vfT{name: "TestA"}
	mk2 := t2.mark()
	call(cs.S).do(t2, dir)
	t2.end()
	c.count("transitions", 1)
	if o := t2.outcome(mk2); o != "pass" {
		c.violation(class, fmt.Sprintf("replay of the recorded value %q after a failed mismatch signalled %s %v", vfClip(cs.S), o, t2.errs), cs)
	}
	c.outcome("replay(s):" + t2.outcome(mk2))
}

func init() {
	vfRegister("C02", func(c *vfCtx, emit func(c02Case)) {
		c.rule = "all ordered pairs (stored, received) of distinct values over the body alphabet, per API, colours on/off, update disabled in five ways; " +
			"non-trivial = distinct (pair, api, colour, mode) in which one side contains a special token"
		c02Gen(c, emit)
	}, c02Run)
}
