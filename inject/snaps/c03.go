//go:build verif

package snaps

import (
	"bytes"
	"encoding/json"
	"fmt"
	"os"
	"path/filepath"
	"strings"
	"time"

	"github.com/gkampitakis/go-snaps/match"
)

// C03 — entries are stably addressed and isolated (DESIGN §6 C03).
// Explicit-state breadth-first search over operation histories:
//   Call(test, value, updating?)  |  End(test)
// Calls of different tests interleave at call granularity (what parallel tests
// look like to the registry); a test may be executed again after End (what
// -count does). Successor = replay of the history on a fresh world + 1 op.

type c03Op struct {
	Op       string `json:"op"` // call | end | cleanupcall (t.Cleanup registers a function that makes the call when the execution ends)
	Test     string `json:"test"`
	Val      string `json:"val,omitempty"`
	Upd      bool   `json:"upd,omitempty"`
	File     string `json:"file,omitempty"`     // Filename option, "" = f
	API      string `json:"api,omitempty"`      // "" = snap | json | yaml
	Bad      string `json:"bad,omitempty"`      // "" | invalid (Val is not a document) | matcher (a matcher on a missing path)
	NoCreate bool   `json:"nocreate,omitempty"` // Update(false): a missing slot may not be created
	Spell    string `json:"spell,omitempty"`    // how the Dir option spells the (same) directory: "" | slash | dot | dotdot | double
}

type c03Case struct {
	Pre       []vfEntry `json:"pre,omitempty"` // Body = value
	Ops       []c03Op   `json:"ops"`
	NoFinalNL bool      `json:"nofinalnl,omitempty"` // the pre-existing file lost its final newline (an editor trimmed it)
	CRLF      bool      `json:"crlf,omitempty"`      // the pre-existing file has CR LF line ends (a checkout with eol=crlf)
}

func (o c03Op) String() string {
	if o.Op == "end" {
		return "End(" + o.Test + ")"
	}
	u := ""
	if o.Upd {
		u = ",update"
	}
	if o.File != "" {
		u += ",file=" + o.File
	}
	if o.API != "" {
		u += ",api=" + o.API
	}
	if o.Bad != "" {
		u += ",rejected:" + o.Bad
	}
	if o.NoCreate {
		u += ",Update(false)"
	}
	if o.Op == "cleanupcall" {
		return fmt.Sprintf("Cleanup(%s,func(){Call(%q%s)})", o.Test, vfClip(o.Val), u)
	}
	return fmt.Sprintf("Call(%s,%q%s)", o.Test, vfClip(o.Val), u)
}

// c03Apply replays a whole history on a fresh world, checking every
// transition against the model. It returns the canonical key of the final
// state, or ok=false after reporting a violation.
func c03Apply(c *vfCtx, cs c03Case, checkFrom int) (key uint64, ok bool) {
	dir := c.newWorld()
	vfResetState(false, "", true)
	m := vfNewModel(false, "")
	for _, p := range cs.Pre {
		m.preload("f.snap", p.ID, p.Body)
	}
	vfWriteModelFiles(dir, m)
	if cs.NoFinalNL {
		p := filepath.Join(dir, "f.snap")
		if b, err := os.ReadFile(p); err == nil {
			os.WriteFile(p, bytes.TrimSuffix(b, []byte("\n")), 0o644)
		}
		vfParseNoFinalNL = true
		defer func() { vfParseNoFinalNL = false }()
	}
	if cs.CRLF {
		p := filepath.Join(dir, "f.snap")
		if b, err := os.ReadFile(p); err == nil {
			os.WriteFile(p, bytes.ReplaceAll(b, []byte("\n"), []byte("\r\n")), 0o644)
		}
		vfParseDropCR = true
		defer func() { vfParseDropCR = false }()
	}
	live := map[string]*vfT{}
	pending := map[string]*c03Pending{}
	for i, op := range cs.Ops {
		t := live[op.Test]
		if t == nil {
			t = &vfT{name: op.Test}
			live[op.Test] = t
		}
		class := func() string {
			if vfClassK2(m) {
				return "K2-header-line-in-body"
			}
			return ""
		}
		if op.Op == "end" {
			// a call registered with t.Cleanup is made while the execution ends: it is the test's next call (in time order)
			pd := pending[op.Test]
			var want, slot, id string
			if pd != nil {
				want, slot, id = m.call(op.Test, pd.cl, vfFormat(pd.cl))
			}
			t.end()
			m.endTest(op.Test)
			delete(live, op.Test)
			delete(pending, op.Test)
			if pd == nil || i < checkFrom {
				continue
			}
			c.count("transitions", 1)
			c.outcome("cleanup:" + slot + "->" + pd.got)
			k15 := class()
			if k15 == "" && pd.bodyAfter {
				k15 = "K15-call-in-cleanup-registered-before-a-body-call"
			}
			if pd.got != want {
				c.violation(k15, fmt.Sprintf("after %s: the call made by the cleanup function of %s when its execution ended should address slot [%s] (%s in the model) and signal %s, it signalled %s",
					c03Hist(cs.Ops[:i]), op.Test, id, slot, want, pd.got), cs)
				return 0, false
			}
			if p := vfCheckDisk(dir, m); p != "" {
				c.violation(k15, fmt.Sprintf("after %s then %s (which runs the call registered with t.Cleanup): %s", c03Hist(cs.Ops[:i]), op, p), cs)
				return 0, false
			}
			continue
		}
		cl := vfCall{API: "snap", Val: op.Val, File: op.File}
		if op.API != "" {
			cl.API = op.API
		}
		if op.Upd {
			cl.Upd = "true"
		}
		if op.NoCreate {
			cl.Upd = "false"
		}
		if op.Op == "cleanupcall" {
			pd := &c03Pending{cl: cl}
			pending[op.Test] = pd
			tt := t
			tt.Cleanup(func() {
				mk := tt.mark()
				pd.cl.do(tt, dir)
				pd.got = tt.outcome(mk)
			})
			continue
		}
		if pd := pending[op.Test]; pd != nil {
			pd.bodyAfter = true
		}
		mk := t.mark()
		var want, slot, id string
		if op.Bad != "" {
			// a call that is rejected before it reaches the file: it still consumes its ordinal
			c03Rejected(cl, op.Bad, t, vfSpellDir(dir, op.Spell))
			m.fail(op.Test, cl)
			want, slot, id = "failed", "rejected", "-"
		} else {
			cl.do(t, vfSpellDir(dir, op.Spell))
			want, slot, id = m.call(op.Test, cl, vfFormat(cl))
		}
		got := t.outcome(mk)
		if i < checkFrom {
			continue
		}
		c.count("transitions", 1)
		c.outcome(slot + "->" + got)
		if got != want {
			c.violation(class(), fmt.Sprintf("after %s: %s addressed slot [%s] (%s in the model) and signalled %s, model says %s",
				c03Hist(cs.Ops[:i]), op, id, slot, got, want), cs)
			return 0, false
		}
		if p := vfCheckDisk(dir, m); p != "" {
			c.violation(class(), fmt.Sprintf("after %s then %s: %s", c03Hist(cs.Ops[:i]), op, p), cs)
			return 0, false
		}
	}
	// canonical key: file bytes + running ordinals (the cumulative counters are
	// not observable by any C03 operation and are left out)
	var run []string
	for f, tm := range testsRegistry.running {
		for n, v := range tm {
			if v != 0 {
				run = append(run, fmt.Sprintf("%s|%s|%d", f[strings.LastIndex(f, "/")+1:], n, v))
			}
		}
	}
	return vfHash(fmt.Sprint(vfHashDir(vfSnapDir(dir))), strings.Join(vfSorted(run), ";")), true
}

// c03Pending is a call a test registered with t.Cleanup (at most one per execution).
type c03Pending struct {
	cl        vfCall
	got       string
	bodyAfter bool // the test made a call of its own after registering the function
}

// c03CleanupCalls: a test registers, somewhere between its k calls, a cleanup function that makes one more call; that call
// happens when the execution ends and is the test's (k+1)-th call. Executed twice (record, replay) and with an update.
func c03CleanupCalls(emit func(c03Case)) {
	for k := 0; k <= 3; k++ {
		for at := 0; at <= k; at++ {
			for _, upd := range []bool{false, true} {
				for _, other := range []bool{false, true} {
					var ops []c03Op
					for exec := 0; exec < 2; exec++ {
						for i := 0; i <= k; i++ {
							if i == at {
								ops = append(ops, c03Op{Op: "cleanupcall", Test: "TestA", Val: fmt.Sprintf("late%d", exec*map[bool]int{true: 1}[upd]), Upd: upd && exec == 1})
							}
							if i < k {
								ops = append(ops, c03Op{Op: "call", Test: "TestA", Val: fmt.Sprintf("v%d", i)})
							}
							if other && i == 0 {
								ops = append(ops, c03Op{Op: "call", Test: "TestB", Val: "b"})
							}
						}
						ops = append(ops, c03Op{Op: "end", Test: "TestA"})
						if other {
							ops = append(ops, c03Op{Op: "end", Test: "TestB"})
						}
					}
					emit(c03Case{Ops: ops})
				}
			}
		}
	}
}

func c03Hist(ops []c03Op) string {
	var s []string
	for _, o := range ops {
		s = append(s, o.String())
	}
	return "[" + strings.Join(s, " ") + "]"
}

func c03Alphabet(c *vfCtx) []c03Op {
	tests := []string{"TestA", "TestA/s", "TestAB"}
	vals := []string{"a", "b", "[TestA - 2]"}
	if c.thorough() {
		tests = append(tests, "TestB")
		// (names with characters that mean something elsewhere - `[x]`, `.snap`, `%d`, `:` - are exercised in the linear families below)
		vals = append(vals, "x\n\n[TestA - 2]\ny")
	}
	var ops []c03Op
	for _, t := range tests {
		for _, v := range vals {
			ops = append(ops, c03Op{Op: "call", Test: t, Val: v})
		}
	}
	for _, t := range tests {
		for _, v := range vals[:2] {
			ops = append(ops, c03Op{Op: "call", Test: t, Val: v, Upd: true})
		}
	}
	// one test that also uses a second snapshot file
	for _, v := range vals[:2] {
		ops = append(ops, c03Op{Op: "call", Test: "TestA", Val: v, File: "g"})
	}
	for _, t := range tests {
		ops = append(ops, c03Op{Op: "end", Test: t})
	}
	return ops
}

func c03BFS(c *vfCtx) {
	alpha := c03Alphabet(c)
	// thorough widens the alphabet (4 tests x 4 values) at the same depth: depth 6 over it does not finish
	// within the internal deadline (measured: 5.4e7 histories, 2.1e7 states, exhaustive:false)
	depth := 5
	var as []string
	for _, o := range alpha {
		as = append(as, o.String())
	}
	c.bound("bfs_alphabet", as)
	c.bound("bfs_depth", depth)
	pres := [][]vfEntry{nil, {{ID: "TestA - 2", Body: "old"}, {ID: "TestZ - 1", Body: "[TestA - 1]"}, {ID: "TestA/s - 1", Body: "a"}}}
	c.bound("bfs_initial_files", len(pres))
	type node struct{ ops []c03Op }
	for pi, pre := range pres {
		// shards take disjoint first operations; each keeps its own visited set
		seen := map[uint64]bool{}
		var frontier []node
		for i, op := range alpha {
			if (i+pi)%c.nshards != c.shard {
				continue
			}
			frontier = append(frontier, node{[]c03Op{op}})
		}
		for d := 1; d <= depth && len(frontier) > 0; d++ {
			var next []node
			for _, n := range frontier {
				if c.stoppedNow() {
					return
				}
				cs := c03Case{Pre: pre, Ops: n.ops}
				c.curCase = cs
				c.count("evaluations", 1)
				c.count("traces", 1)
				key, ok := c03Apply(c, cs, len(n.ops)-1)
				c.sample(cs)
				if !ok {
					continue
				}
				nt := false
				tests := map[string]bool{}
				for _, o := range n.ops {
					tests[o.Test] = true
					if o.Upd || o.Op == "end" || vfSpecial(o.Val) {
						nt = true
					}
				}
				if nt || len(tests) > 1 {
					c.addSet("nontrivial", vfHashJSON(cs))
				}
				c.addSet("states", key)
				if seen[key] {
					c.count("revisits", 1)
					continue
				}
				seen[key] = true
				if d == depth {
					continue
				}
				for _, op := range alpha {
					if op.Op == "end" {
						// End of a test that has no call in this execution is a no-op: skip
						liveCalls := false
						for j := len(n.ops) - 1; j >= 0; j-- {
							if n.ops[j].Test == op.Test {
								liveCalls = n.ops[j].Op == "call"
								break
							}
						}
						if !liveCalls {
							continue
						}
					}
					next = append(next, node{append(append([]c03Op{}, n.ops...), op)})
				}
			}
			frontier = next
		}
	}
}

// c03Shadow: entries whose values contain a blank line followed by the id of ANOTHER slot, then that slot is
// created, matched, updated (the look-up and the rewrite must agree on where entries start).
func c03Shadow(emit func(c03Case)) {
	for _, v := range []string{"head\n\n[TestA - 2]\ntail", "[TestA - 2]", "\n[TestA - 2]\n---\n[TestA - 3]", "x\n[TestB - 1]\n\n[TestA - 2]",
		// runs of terminator lines inside a value, followed by the header of another slot
		"a\n---\n---\n[TestB - 1]\nstolen\n---\nz", "---\n---\n---", "x\n---\n---\n---\n[TestA - 2]\ny\n---"} {
		for _, upd := range []bool{false, true} {
			ops := []c03Op{
				{Op: "call", Test: "TestA", Val: v}, {Op: "call", Test: "TestA", Val: "second"}, {Op: "call", Test: "TestB", Val: "b1"}, {Op: "call", Test: "TestA", Val: "third"},
				{Op: "end", Test: "TestA"}, {Op: "end", Test: "TestB"},
				{Op: "call", Test: "TestA", Val: v}, {Op: "call", Test: "TestA", Val: "second CHANGED", Upd: upd}, {Op: "call", Test: "TestB", Val: "b1 CHANGED", Upd: upd}, {Op: "call", Test: "TestA", Val: "third"},
				{Op: "end", Test: "TestA"}, {Op: "end", Test: "TestB"},
				{Op: "call", Test: "TestA", Val: v}, {Op: "call", Test: "TestA", Val: "second CHANGED"}, {Op: "call", Test: "TestB", Val: "b1 CHANGED"},
			}
			emit(c03Case{Ops: ops})
		}
	}
}

// c03Rejected performs a JSON/YAML call that the library rejects before it reaches the file.
func c03Rejected(cl vfCall, bad string, t *vfT, dir string) {
	cfg := cl.config(dir)
	switch {
	case cl.API == "json" && bad == "matcher":
		cfg.MatchJSON(t, cl.input(), match.Any("no.such.path"))
	case cl.API == "yaml" && bad == "matcher":
		cfg.MatchYAML(t, cl.input(), match.Any("$.no.such.path"))
	case cl.API == "json":
		cfg.MatchJSON(t, cl.input())
	case cl.API == "yaml":
		cfg.MatchYAML(t, cl.input())
	default:
		panic("bad rejected call")
	}
}

// c03Failing: "a failing call still consumes its ordinal" for calls that fail before a snapshot is taken
// (not a document, matcher error), at every position of a 4-call test, with and without update, followed by a replay.
func c03Failing(emit func(c03Case)) {
	type doc struct{ api, v1, v2, invalid string }
	for _, d := range []doc{{"json", "%d", "1%d", "{"}, {"yaml", "a: %d", "a: 1%d", "a: [\n"}} {
		val := func(f string, k int) string { return fmt.Sprintf(f, k) }
		for _, bad := range []string{"invalid", "matcher"} {
			for k := 1; k <= 4; k++ {
				for _, upd := range []bool{false, true} {
					var ops []c03Op
					for i := 1; i <= 4; i++ {
						ops = append(ops, c03Op{Op: "call", Test: "TestA", API: d.api, Val: val(d.v1, i)})
					}
					ops = append(ops, c03Op{Op: "call", Test: "TestAB", API: d.api, Val: val(d.v1, 9)}, c03Op{Op: "end", Test: "TestA"}, c03Op{Op: "end", Test: "TestAB"})
					for exec := 0; exec < 2; exec++ {
						f := d.v1
						if exec == 1 {
							f = d.v2
						}
						for i := 1; i <= 4; i++ {
							o := c03Op{Op: "call", Test: "TestA", API: d.api, Val: val(f, i), Upd: upd && exec == 1}
							if i == k {
								o.Bad = bad
								o.Val = val(d.v1, i)
								if bad == "invalid" {
									o.Val = d.invalid
								}
							}
							ops = append(ops, o)
						}
						ops = append(ops, c03Op{Op: "end", Test: "TestA"})
					}
					// replay: slot k still holds its first value, the others the updated ones (if updating)
					for i := 1; i <= 4; i++ {
						f := d.v1
						if upd && i != k {
							f = d.v2
						}
						ops = append(ops, c03Op{Op: "call", Test: "TestA", API: d.api, Val: val(f, i)})
					}
					ops = append(ops, c03Op{Op: "call", Test: "TestAB", API: d.api, Val: val(d.v1, 9)})
					emit(c03Case{Ops: ops})
				}
			}
		}
	}
}

// c03BigFile: a file well above 128 KiB (several refills of any 64 KiB read buffer), ~90 slots of two tests with distinct lines:
// recorded, replayed, one early slot grown under update (every later entry shifts), everything replayed again.
func c03BigFile(emit func(c03Case)) {
	body := func(t string, k int) string {
		var b strings.Builder
		for l := 0; l < 40; l++ {
			fmt.Fprintf(&b, "%s slot %d line %d ........................\n", t, k, l)
		}
		return b.String() + "end"
	}
	var rec, rep []c03Op
	for k := 1; k <= 45; k++ {
		for _, t := range []string{"TestBig", "TestBigB"} {
			rec = append(rec, c03Op{Op: "call", Test: t, Val: body(t, k)})
		}
	}
	rep = append(rep, rec...)
	ends := []c03Op{{Op: "end", Test: "TestBig"}, {Op: "end", Test: "TestBigB"}}
	var ops []c03Op
	ops = append(ops, rec...)
	ops = append(ops, ends...)
	ops = append(ops, rep...)
	ops = append(ops, ends...)
	// grow slot (TestBig, 2) and shrink slot (TestBigB, 3) under update, the other calls unchanged
	for i, o := range rec {
		switch i {
		case 2:
			o.Val, o.Upd = o.Val+strings.Repeat("\ngrown line", 700), true
		case 5:
			o.Val, o.Upd = "shrunk", true
		}
		ops = append(ops, o)
	}
	ops = append(ops, ends...)
	for i, o := range rec {
		switch i {
		case 2:
			o.Val = o.Val + strings.Repeat("\ngrown line", 700)
		case 5:
			o.Val = "shrunk"
		}
		ops = append(ops, o)
	}
	emit(c03Case{Ops: ops})
}

// c03NoCreate: calls on MISSING slots while creation is not allowed (Update(false)) fail and still consume their ordinal.
func c03NoCreate(emit func(c03Case)) {
	nc := func(t, v string) c03Op { return c03Op{Op: "call", Test: t, Val: v, NoCreate: true} }
	cl := func(t, v string) c03Op { return c03Op{Op: "call", Test: t, Val: v} }
	end := func(t string) c03Op { return c03Op{Op: "end", Test: t} }
	for _, other := range []string{"TestAB", "TestA/s"} {
		emit(c03Case{Ops: []c03Op{nc("TestA", "a"), cl("TestA", "b"), cl(other, "o"), nc("TestA", "c"), cl("TestA", "d"), end("TestA"), end(other),
			nc("TestA", "a"), cl("TestA", "b"), cl(other, "o"), nc("TestA", "c"), cl("TestA", "d"), end("TestA"),
			cl("TestA", "a"), cl("TestA", "b"), cl("TestA", "c"), cl("TestA", "d")}})
	}
	// a pre-existing file whose final newline was trimmed: the LAST entry is still found, matched, updated; others too
	pre := []vfEntry{{ID: "TestA - 1", Body: "a1"}, {ID: "TestB - 1", Body: "b1"}, {ID: "TestA - 2", Body: "last"}}
	for _, upd := range []bool{false, true} {
		emit(c03Case{Pre: pre, NoFinalNL: true, Ops: []c03Op{cl("TestA", "a1"), cl("TestA", "last"), cl("TestB", "b1"), end("TestA"), end("TestB"),
			{Op: "call", Test: "TestB", Val: "b1 changed", Upd: upd}, cl("TestA", "a1"), cl("TestA", "last"), end("TestA"), end("TestB"), cl("TestA", "a1"), cl("TestA", "last"), cl("TestA", "third")}})
		emit(c03Case{Pre: pre, NoFinalNL: true, Ops: []c03Op{cl("TestA", "a1"), {Op: "call", Test: "TestA", Val: "last changed", Upd: upd}, cl("TestB", "b1")}})
	}
	emit(c03Case{Pre: []vfEntry{{ID: "TestA - 3", Body: "three"}}, Ops: []c03Op{cl("TestA", "one"), nc("TestA", "missing two"), cl("TestA", "three"), end("TestA"), cl("TestA", "one"), nc("TestA", "x"), cl("TestA", "three")}})
}

// c03Truncated: a file whose last entry lost its terminator (truncated). Whatever becomes of THAT entry, looking it up must not
// change what the intact slots of other tests replay as - neither in the file nor through anything the library keeps in memory.
func c03Truncated(c *vfCtx) {
	dir := c.newWorld()
	vfResetState(false, "", true)
	intact := []vfEntry{{ID: "TestA - 1", Body: "a"}, {ID: "TestB - 1", Body: "b1\nb2"}, {ID: "TestA - 2", Body: "a2"}}
	raw := string(vfRender(intact)) + "\n[TestT - 1]\nleftover line 1\nleftover line 2\n"
	os.WriteFile(filepath.Join(dir, "f.snap"), []byte(raw), 0o644)
	cfg := WithConfig(Dir(dir), Filename("f"), Update(false))
	tt := &vfT{name: "TestT"}
	cfg.MatchSnapshot(tt, "leftover line 1\nleftover line 2") // outcome not judged
	for _, e := range intact {
		name, _, _ := vfSplitID(e.ID)
		_ = name
	}
	ta, tb := &vfT{name: "TestA"}, &vfT{name: "TestB"}
	steps := []struct {
		t *vfT
		v string
	}{{ta, "a"}, {tb, "b1\nb2"}, {ta, "a2"}}
	for i, st := range steps {
		mk := st.t.mark()
		cfg.MatchSnapshot(st.t, st.v)
		c.count("transitions", 1)
		if got := st.t.outcome(mk); got != "pass" {
			c.violation("", fmt.Sprintf("a truncated last entry [TestT - 1] was looked up; afterwards the intact slot addressed by call %d (%q in %s) signals %s: %v", i+1, st.v, st.t.name, got, st.t.errs), map[string]any{"family": "truncated"})
			return
		}
	}
	tt.end()
	ta.end()
	tb.end()
	c.count("evaluations", 1)
	c.count("traces", 1)
	c.addSet("states", vfHashDir(vfSnapDir(dir)))
}

// c03CRLF: a pre-existing file with CR LF line ends and twenty-odd lines in front of the slot that is updated - by a value of the
// same byte length, a shorter and a longer one; every other slot (before and after it) replays afterwards and in a second execution.
func c03CRLF(emit func(c03Case)) {
	var pre []vfEntry
	for i := 1; i <= 6; i++ {
		pre = append(pre, vfEntry{ID: fmt.Sprintf("TestU - %d", i), Body: fmt.Sprintf("user %d\nname\nmail\nend", i)})
	}
	pre = append(pre, vfEntry{ID: "TestA - 1", Body: "requests served\nint(100)"}, vfEntry{ID: "TestC - 1", Body: "tail 1"}, vfEntry{ID: "TestC - 2", Body: "tail 2"})
	for _, neu := range []string{"requests served\nint(250)", "requests served\nint(7)", "requests served\nint(100000)\nmore"} {
		for _, first := range []bool{true, false} {
			var ops []c03Op
			for exec := 0; exec < 2; exec++ {
				a := c03Op{Op: "call", Test: "TestA", Val: neu, Upd: exec == 0}
				if first {
					ops = append(ops, a)
				}
				for i := 1; i <= 6; i++ {
					ops = append(ops, c03Op{Op: "call", Test: "TestU", Val: fmt.Sprintf("user %d\nname\nmail\nend", i)})
				}
				if !first {
					ops = append(ops, a)
				}
				ops = append(ops, c03Op{Op: "call", Test: "TestC", Val: "tail 1"}, c03Op{Op: "call", Test: "TestC", Val: "tail 2"},
					c03Op{Op: "end", Test: "TestA"}, c03Op{Op: "end", Test: "TestU"}, c03Op{Op: "end", Test: "TestC"})
			}
			emit(c03Case{Pre: pre, Ops: ops, CRLF: true})
		}
	}
}

// c03Spellings: the calls of one test reach the SAME file through Configs whose Dir option spells the directory differently
// (trailing slash, /./, //, x/../x): one file, one numbering. Three executions: record, replay, update of the middle slot.
func c03Spellings(emit func(c03Case)) {
	for _, order := range [][]string{{"", "dot", "slash"}, {"slash", "", "double"}, {"dotdot", "dot", ""}, {"double", "double", "dotdot"}} {
		var ops []c03Op
		for exec := 0; exec < 3; exec++ {
			for i, sp := range order {
				o := c03Op{Op: "call", Test: "TestA", Val: fmt.Sprintf("v%d", i), Spell: sp}
				if exec == 2 && i == 1 {
					o.Val, o.Upd = "changed", true
				}
				ops = append(ops, o)
				if i == 0 {
					ops = append(ops, c03Op{Op: "call", Test: "TestB", Val: "b", Spell: order[(exec+1)%len(order)]})
				}
			}
			ops = append(ops, c03Op{Op: "end", Test: "TestA"}, c03Op{Op: "end", Test: "TestB"})
		}
		emit(c03Case{Ops: ops})
	}
}

// c03OnlyRejected: an execution in which EVERY call of the test is rejected before it reaches the file (not a document), then
// the test is executed again with valid input: the numbering starts at 1 again.
func c03OnlyRejected(emit func(c03Case)) {
	for _, d := range [][3]string{{"json", "{", "%d"}, {"yaml", "a: [\n", "a: %d"}} {
		for n := 1; n <= 2; n++ {
			for _, other := range []bool{false, true} {
				var ops []c03Op
				for i := 0; i < n; i++ {
					ops = append(ops, c03Op{Op: "call", Test: "TestA", API: d[0], Val: d[1], Bad: "invalid"})
				}
				if other {
					ops = append(ops, c03Op{Op: "call", Test: "TestB", API: d[0], Val: fmt.Sprintf(d[2], 7)})
				}
				ops = append(ops, c03Op{Op: "end", Test: "TestA"})
				for exec := 0; exec < 2; exec++ {
					for i := 1; i <= 2; i++ {
						ops = append(ops, c03Op{Op: "call", Test: "TestA", API: d[0], Val: fmt.Sprintf(d[2], i)})
					}
					ops = append(ops, c03Op{Op: "end", Test: "TestA"})
				}
				emit(c03Case{Ops: ops})
			}
		}
	}
}

// c03TwoFiles: one test alternating between two snapshot files, executed three times.
func c03TwoFiles(emit func(c03Case)) {
	for _, pattern := range [][]string{{"", "g"}, {"g", ""}, {"", "g", "g", ""}, {"", "", "g", "g", "g"}, {"g", "g", ""}} {
		var ops []c03Op
		for exec := 0; exec < 3; exec++ {
			for i, f := range pattern {
				ops = append(ops, c03Op{Op: "call", Test: "TestA", Val: fmt.Sprintf("v%d", i), File: f})
			}
			ops = append(ops, c03Op{Op: "end", Test: "TestA"})
		}
		emit(c03Case{Ops: ops})
	}
}

func (c *vfCtx) stoppedNow() bool {
	if c.stopped {
		return true
	}
	c.tick++
	if c.tick%256 == 0 && !c.deadline.IsZero() && time.Now().After(c.deadline) {
		c.stopped = true
		c.cap("deadline")
		return true
	}
	return false
}

// c03Linear: families that need long histories (more than nine ordinals,
// repeated executions) — explicit programs rather than search.
func c03Linear(c *vfCtx, emit func(c03Case)) {
	mk := func(test string, n int, special map[int]string, upd map[int]bool, tag string) []c03Op {
		var ops []c03Op
		for k := 1; k <= n; k++ {
			v := fmt.Sprintf("%s%d", tag, k)
			if s, ok := special[k]; ok {
				v = s
			}
			ops = append(ops, c03Op{Op: "call", Test: test, Val: v, Upd: upd[k]})
		}
		return ops
	}
	end := func(t string) c03Op { return c03Op{Op: "end", Test: t} }
	for _, n := range []int{10, 11, 12} {
		// execution 1 records n calls; execution 2 replays them; execution 3 changes call k under update
		for _, k := range []int{1, 2, 9, 10, n} {
			var ops []c03Op
			ops = append(ops, mk("TestA", n, nil, nil, "v")...)
			ops = append(ops, end("TestA"))
			ops = append(ops, mk("TestA", n, nil, nil, "v")...)
			ops = append(ops, end("TestA"))
			ops = append(ops, mk("TestA", n, map[int]string{k: "changed"}, map[int]bool{k: true}, "v")...)
			ops = append(ops, end("TestA"))
			ops = append(ops, mk("TestA", n, map[int]string{k: "changed"}, nil, "v")...)
			emit(c03Case{Ops: ops})
			// a failing call (mismatch, no update) still consumes its ordinal
			var ops2 []c03Op
			ops2 = append(ops2, mk("TestA", n, nil, nil, "v")...)
			ops2 = append(ops2, end("TestA"))
			ops2 = append(ops2, mk("TestA", n, map[int]string{k: "different"}, nil, "v")...)
			emit(c03Case{Ops: ops2})
		}
		// two tests interleaved call by call, one a name-prefix of the other
		for _, other := range []string{"TestA/s", "TestAB", "TestA1", "TestA/[x]", "TestA/x.snap", "TestA/_%d", "TestA/a:b"} {
			var ops []c03Op
			a, b := mk("TestA", n, nil, nil, "a"), mk(other, n, nil, nil, "b")
			for i := range a {
				ops = append(ops, a[i], b[i])
			}
			ops = append(ops, end("TestA"), end(other))
			for i := range a {
				ops = append(ops, b[i], a[i])
			}
			emit(c03Case{Ops: ops})
		}
	}
}

func init() {
	d := &vfDriver{}
	vfDrivers["C03"] = d
	d.run = func(c *vfCtx) {
		c.rule = "breadth-first explicit-state search over histories of Call(test,value,update?)/End(test) with state de-duplication on (file bytes, running ordinals), " +
			"every transition executed on the real code and compared with the model (outcome, addressed slot, parse(disk)); plus linear families with 10..12 ordinals; " +
			"non-trivial = distinct histories with two tests, an End, an update or a special value"
		c03BFS(c)
		if c.shard == 0 {
			c03Truncated(c)
		}
		lin := func(emit func(c03Case)) {
			c03Linear(c, emit)
			c03TwoFiles(emit)
			c03Shadow(emit)
			c03Failing(emit)
			c03BigFile(emit)
			c03NoCreate(emit)
			c03CleanupCalls(emit)
			c03CRLF(emit)
			c03Spellings(emit)
			c03OnlyRejected(emit)
		}
		lin(func(cs c03Case) {
			if !c.mine() {
				return
			}
			c.curCase = cs
			c.count("evaluations", 1)
			c.count("traces", 1)
			if key, ok := c03Apply(c, cs, 0); ok {
				c.addSet("states", key)
			}
			c.addSet("nontrivial", vfHashJSON(cs))
			c.sample(cs)
		})
	}
	d.replay = func(c *vfCtx, raw json.RawMessage) {
		var cs c03Case
		if err := vfUnmarshalStrict(raw, &cs); err != nil {
			c.harnessErr("replay: %v", err)
			return
		}
		c.count("evaluations", 1)
		c.count("traces", 1)
		c03Apply(c, cs, 0)
	}
}
