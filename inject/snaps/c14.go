//go:build verif

package snaps

import (
	"bytes"
	"encoding/json"
	"fmt"
	"os"
	"path/filepath"
	"reflect"
	"regexp"
	"strings"
	"sync"
)

// C14 — JSON snapshots are canonical and lossless (DESIGN §6 C14).
// Depth 1..2 exploration over a bounded document grammar; exhaustive within it.

// vfJ is a tiny JSON tree whose text presentation we control.
type vfJ struct {
	Scalar string // raw JSON text of a scalar
	Arr    []*vfJ
	Keys   []string // raw JSON text of keys (quoted)
	Vals   []*vfJ
	IsArr  bool
	IsObj  bool
}

// render writes the tree with whitespace style ws (0 compact, 1 spaces, 2
// newline+tab, 3 CRLF) and member order ord (0 as is, 1 reversed, 2 rotated).
func (j *vfJ) render(ws, ord int) string {
	var sp, nl string
	switch ws {
	case 1:
		sp = " "
	case 2:
		sp, nl = "\t", "\n"
	case 3:
		sp, nl = " ", "\r\n"
	}
	switch {
	case j.IsArr:
		var p []string
		for _, e := range j.Arr {
			p = append(p, e.render(ws, ord))
		}
		return "[" + nl + sp + strings.Join(p, sp+","+nl+sp) + nl + sp + "]"
	case j.IsObj:
		idx := make([]int, len(j.Keys))
		for i := range idx {
			idx[i] = i
		}
		switch ord {
		case 1:
			for a, b := 0, len(idx)-1; a < b; a, b = a+1, b-1 {
				idx[a], idx[b] = idx[b], idx[a]
			}
		case 2:
			if len(idx) > 1 {
				idx = append(idx[1:], idx[0])
			}
		}
		var p []string
		for _, i := range idx {
			p = append(p, j.Keys[i]+sp+":"+sp+j.Vals[i].render(ws, ord))
		}
		return "{" + nl + sp + strings.Join(p, sp+","+nl+sp) + nl + sp + "}"
	}
	return j.Scalar
}

func vfJS(s string) *vfJ  { return &vfJ{Scalar: s} }
func vfJA(e ...*vfJ) *vfJ { return &vfJ{IsArr: true, Arr: e} }
func vfJO(kv ...any) *vfJ {
	o := &vfJ{IsObj: true}
	for i := 0; i+1 < len(kv); i += 2 {
		o.Keys = append(o.Keys, kv[i].(string))
		o.Vals = append(o.Vals, kv[i+1].(*vfJ))
	}
	return o
}

var c14Scalars = []string{`null`, `true`, `false`, `0`, `-0`, `1.5`, `1e3`, `1E-2`, `12345678901234567890`, `""`, `"a"`, `"é"`, `"é"`,
	`"a\"b"`, `"\n"`, `"<&>"`, `"---"`, `"[TestA - 2]"`, `"\\u003c"`, `"a\\u0026b"`, `" "`, `"/-/-/-/"`,
	// strings whose CONTENT is itself a JSON document (they are strings all the same), and an integer beyond 2^53
	`"123"`, `"true"`, `"null"`, `"[]"`, `"{\"b\":1}"`, `" [1] "`, `9007199254740993`,
	// per cent signs: the text is data, never a format
	`"50%"`, `"%s items"`, `"100%% %d%v"`}
var c14Keys = []string{`"a"`, `"b"`, `"A"`, `"é"`, `"a.b"`, `""`, `"a b"`, `"---"`, `"[TestA - 2]"`, `"a%b"`}

func c14Docs(thorough bool) []*vfJ {
	var docs []*vfJ
	S := c14Scalars
	rep := []string{`1`, `"a"`, `null`, `"---"`, `1E-2`, `"<&>"`}
	for _, s := range S {
		docs = append(docs, vfJS(s))
	}
	var l1 []*vfJ
	l1 = append(l1, vfJA(), vfJO())
	for _, s := range S {
		l1 = append(l1, vfJA(vfJS(s)))
	}
	for _, a := range rep {
		for _, b := range rep {
			l1 = append(l1, vfJA(vfJS(a), vfJS(b)))
		}
	}
	l1 = append(l1, vfJA(vfJS(`1`), vfJS(`2`), vfJS(`3`)), vfJA(vfJS(`"aaaaaaaaaaaaaaaaaaaaaaaaaaaaaaaaaaaaaaaa"`), vfJS(`"bbbbbbbbbbbbbbbbbbbbbbbbbbbbbbbbbbbbbbbbbbbbbbbbbb"`)))
	for _, k := range c14Keys {
		for _, s := range rep {
			l1 = append(l1, vfJO(k, vfJS(s)))
		}
	}
	for i, k1 := range c14Keys {
		for _, k2 := range c14Keys[i+1:] {
			l1 = append(l1, vfJO(k2, vfJS(`1`), k1, vfJS(`"x"`)))
		}
	}
	l1 = append(l1, vfJO(`"b"`, vfJS(`1`), `"a"`, vfJS(`2`), `"A"`, vfJS(`3`)), vfJO(`"c"`, vfJS(`"---"`), `"b"`, vfJS(`null`), `"a"`, vfJS(`"/-/-/-/"`)))
	docs = append(docs, l1...)
	// level 2: containers of level-1 documents
	step := 3
	if thorough {
		step = 1
	}
	for i := 0; i < len(l1); i += step {
		d := l1[i]
		docs = append(docs, vfJA(d), vfJO(`"a"`, d), vfJO(`"b"`, d, `"a"`, vfJS(`1`)), vfJA(d, vfJS(`1`)))
		if thorough {
			docs = append(docs, vfJA(vfJA(d)), vfJO(`"x"`, vfJO(`"z"`, d, `"y"`, vfJA(d))))
		}
	}
	return docs
}

type c14Case struct {
	Kind string `json:"kind"` // doc | opts | invalid
	Doc  string `json:"doc"`  // compact text of the document (as written)
	Idx  int    `json:"idx"`
	Opt  int    `json:"opt,omitempty"`
}

var c14DocCache []*vfJ

func c14Doc(c *vfCtx, idx int) *vfJ {
	if c14DocCache == nil {
		c14DocCache = c14Docs(c.thorough())
	}
	return c14DocCache[idx]
}

type c14Opt struct {
	Width    int
	Indent   string
	SortKeys bool
}

func c14Opts() []c14Opt {
	var o []c14Opt
	for _, w := range []int{0, 10, 80} {
		for _, in := range []string{"", " ", "\t", "    "} {
			for _, sk := range []bool{true, false} {
				o = append(o, c14Opt{w, in, sk})
			}
		}
	}
	return o
}

func c14Gen(c *vfCtx, emit func(c14Case)) {
	docs := c14Docs(c.thorough())
	c14DocCache = docs
	c.bound("documents", len(docs))
	c.bound("scalars", c14Scalars)
	c.bound("keys", c14Keys)
	c.bound("presentations", "4 whitespace styles x 3 member orders x {string, []byte}; Go value and struct forms")
	c.bound("format_option_sets", len(c14Opts()))
	for i, d := range docs {
		emit(c14Case{Kind: "doc", Doc: d.render(0, 0), Idx: i})
	}
	for oi := range c14Opts() {
		for i, d := range docs {
			if (d.IsArr || d.IsObj) && (c.thorough() || i%4 == oi%4) {
				emit(c14Case{Kind: "opts", Doc: d.render(0, 0), Idx: i, Opt: oi})
			}
		}
	}
	for i, d := range docs {
		if c.thorough() || i%3 == 0 || i < 60 {
			emit(c14Case{Kind: "invalid", Doc: d.render(0, 0), Idx: i})
		}
	}
}

var c14HeaderLike = regexp.MustCompile(`^\[.* - \d+\]$`)

func c14Decode(s []byte) (any, error) {
	dec := json.NewDecoder(bytes.NewReader(s))
	dec.UseNumber()
	var v any
	if err := dec.Decode(&v); err != nil {
		return nil, err
	}
	if dec.More() {
		return nil, fmt.Errorf("trailing data")
	}
	return v, nil
}

type c14Struct struct {
	A int             `json:"a"`
	B []string        `json:"b"`
	C *string         `json:"c,omitempty"`
	D map[string]any  `json:"d"`
	E json.RawMessage `json:"e"`
}

func c14Run(c *vfCtx, cs c14Case) {
	d := c14Doc(c, cs.Idx)
	if d.render(0, 0) != cs.Doc {
		c.harnessErr("C14: document index %d is %q, case says %q (tier mismatch on replay?)", cs.Idx, d.render(0, 0), cs.Doc)
		return
	}
	c.addSet("nontrivial", vfHashJSON(cs))
	T := d.render(0, 0)
	inVal, err := c14Decode([]byte(T))
	if err != nil {
		c.harnessErr("C14: grammar produced invalid JSON %q: %v", T, err)
		return
	}
	switch cs.Kind {
	case "doc":
		c14RunDoc(c, cs, d, T, inVal, nil)
	case "opts":
		o := c14Opts()[cs.Opt]
		c14RunDoc(c, cs, d, T, inVal, &o)
	case "invalid":
		c14RunInvalid(c, cs, T)
	}
}

func c14RunDoc(c *vfCtx, cs c14Case, d *vfJ, T string, inVal any, opt *c14Opt) {
	dir := c.newWorld()
	cfgOpts := []func(*Config){Dir(dir), Filename("f")}
	if opt != nil {
		cfgOpts = append(cfgOpts, JSON(JSONConfig{Width: opt.Width, Indent: opt.Indent, SortKeys: opt.SortKeys}))
	}
	sortKeys := opt == nil || opt.SortKeys
	vfResetState(false, "", true)
	cfg := WithConfig(cfgOpts...)
	// record the document as written, standalone (file bytes = stored text)
	t := &vfT{name: "TestA"}
	cfg.MatchStandaloneJSON(t, T)
	c.count("transitions", 1)
	if o := t.outcome(vfMark{}); o != "added" {
		c.violation("", fmt.Sprintf("recording %q signalled %s %v", vfClip(T), o, t.errs), cs)
		return
	}
	t.end()
	stored, _ := os.ReadFile(filepath.Join(dir, "f_1.snap.json"))
	c.addSet("states", vfHash(string(stored)))
	if !json.Valid(stored) {
		c.violation("", fmt.Sprintf("standalone file for %q is not valid JSON: %q", vfClip(T), vfClip(string(stored))), cs)
		return
	}
	if sv, err := c14Decode(stored); err != nil || !reflect.DeepEqual(sv, inVal) {
		c.violation("", fmt.Sprintf("stored text %q does not parse to the same value as the input %q", vfClip(string(stored)), vfClip(T)), cs)
		return
	}
	replay := func(what string, in any) bool {
		vfResetState(false, "", true)
		tt := &vfT{name: "TestA"}
		ops := vfLogged(func() { cfg.MatchStandaloneJSON(tt, in) })
		tt.end()
		c.count("transitions", 1)
		if o := tt.outcome(vfMark{}); o != "pass" {
			c.violation("", fmt.Sprintf("%s of %q does not store the same text (replay signalled %s): %s", what, vfClip(T), o, vfClip(strings.Join(tt.errs, ""))), cs)
			return false
		}
		if len(vfMutOps(ops)) > 0 {
			c.violation("", what+": replay wrote to the file system", cs)
			return false
		}
		return true
	}
	// whitespace presentations and (with sorted keys) member orders, as string and as bytes
	for ws := 0; ws < 4; ws++ {
		for ord := 0; ord < 3; ord++ {
			if ord > 0 && !sortKeys {
				continue
			}
			p := d.render(ws, ord)
			if !replay(fmt.Sprintf("presentation ws=%d order=%d (string) %q", ws, ord, vfClip(p)), p) {
				return
			}
			if ord == 0 {
				// insignificant white space AROUND the document (leading, trailing blanks, CR LF, blank lines)
				for _, outer := range []string{" \t" + p + " \n\n", p + "\r\n", "\n\n" + p + "  ", p + "\t"} {
					if !replay(fmt.Sprintf("presentation ws=%d with surrounding white space %q", ws, vfClip(outer)), outer) {
						return
					}
					if !replay("the same as []byte", []byte(outer)) {
						return
					}
				}
			}
			// the caller's []byte: handed to the library twice (it must still hold the document afterwards)
			buf := []byte(p)
			if !replay(fmt.Sprintf("presentation ws=%d order=%d ([]byte)", ws, ord), buf) {
				return
			}
			if string(buf) != p {
				c.violation("", fmt.Sprintf("the call rewrote the caller's []byte input: %q became %q", vfClip(p), vfClip(string(buf))), cs)
				return
			}
			if !replay(fmt.Sprintf("presentation ws=%d order=%d (the same []byte a second time)", ws, ord), buf) {
				return
			}
		}
	}
	// a DIFFERENT document that decodes to the same float64 / the same Go value must not pass against this one's snapshot
	for _, near := range map[string][]string{`9007199254740993`: {`9007199254740992`, `9007199254740993.0`}, `12345678901234567890`: {`12345678901234567891`}, `1.5`: {`1.50`, `15e-1`}, `"123"`: {`123`}, `"true"`: {`true`}, `"[]"`: {`[]`}}[T] {
		vfResetState(false, "", true)
		tn := &vfT{name: "TestA"}
		WithConfig(append(append([]func(*Config){}, cfgOpts...), Update(false))...).MatchStandaloneJSON(tn, near)
		tn.end()
		c.count("transitions", 1)
		if o := tn.outcome(vfMark{}); o != "failed" {
			c.violation("", fmt.Sprintf("stored document %q, received the different document %q: the call signalled %s, not a failure", vfClip(T), near, o), cs)
			return
		}
	}
	if opt != nil {
		return
	}
	// the three input forms of ONE document: the standard encoding D0 of the Go value
	D0, err := json.Marshal(inVal)
	if err != nil {
		c.harnessErr("marshal: %v", err)
		return
	}
	dir2 := filepath.Join(dir, "forms")
	cfg2 := WithConfig(Dir(dir2), Filename("g"))
	var texts []string
	for i, in := range []any{string(D0), []byte(D0), inVal, json.RawMessage(D0), &inVal} {
		if _, isStr := in.(string); isStr && i == 2 {
			// a Go string is by definition read as JSON text, not marshalled: not a "Go value" form
			texts = append(texts, texts[0])
			continue
		}
		vfResetState(false, "", true)
		os.RemoveAll(dir2)
		tt := &vfT{name: "TestA"}
		cfg2.MatchStandaloneJSON(tt, in)
		tt.end()
		c.count("transitions", 1)
		b, _ := os.ReadFile(filepath.Join(dir2, "g_1.snap.json"))
		if o := tt.outcome(vfMark{}); o != "added" {
			c.violation("", fmt.Sprintf("input form %d of %q signalled %s %v", i, vfClip(string(D0)), o, tt.errs), cs)
			return
		}
		texts = append(texts, string(b))
	}
	for i := 1; i < len(texts); i++ {
		if texts[i] != texts[0] {
			c.violation("", fmt.Sprintf("the document %q stores %q as a string but %q in input form %d (1=[]byte, 2=Go value, 3=json.RawMessage, 4=pointer)", vfClip(string(D0)), vfClip(texts[0]), vfClip(texts[i]), i), cs)
			return
		}
	}
	// any other Go value stores what its standard encoding stores (or fails when it has none)
	store := func(in any) (string, string) {
		vfResetState(false, "", true)
		os.RemoveAll(dir2)
		tt := &vfT{name: "TestA"}
		cfg2.MatchStandaloneJSON(tt, in)
		tt.end()
		c.count("transitions", 1)
		b, _ := os.ReadFile(filepath.Join(dir2, "g_1.snap.json"))
		return tt.outcome(vfMark{}), string(b)
	}
	var nilRaw json.RawMessage
	broken := json.RawMessage(T[:len(T)/2] + "\x01{")
	for i, v := range []any{json.RawMessage(T), json.RawMessage(d.render(3, 1)), nilRaw, map[string]any{"k": json.RawMessage(d.render(2, 0))}, []any{inVal, json.RawMessage(T)},
		broken, map[string]any{"k": broken}, &broken} {
		enc, merr := json.Marshal(v)
		o, text := store(v)
		if merr != nil {
			if o != "failed" || text != "" {
				c.violation("", fmt.Sprintf("Go value form %d (%T) has no standard JSON encoding (%v) but the call signalled %s and stored %q", i, v, merr, o, vfClip(text)), cs)
				return
			}
			continue
		}
		o2, want := store(string(enc))
		if o != "added" || o2 != "added" || text != want {
			c.violation("", fmt.Sprintf("Go value form %d (%T): stored %q (%s), its standard encoding %q stores %q (%s)", i, v, vfClip(text), o, vfClip(string(enc)), vfClip(want), o2), cs)
			return
		}
	}
	// a struct wrapping the document
	st := c14Struct{A: 1, B: []string{"x", "---"}, D: map[string]any{"k": inVal}, E: json.RawMessage(T)}
	sb, _ := json.Marshal(st)
	for i, in := range []any{st, &st, string(sb)} {
		vfResetState(false, "", true)
		os.RemoveAll(dir2)
		tt := &vfT{name: "TestA"}
		cfg2.MatchStandaloneJSON(tt, in)
		tt.end()
		b, _ := os.ReadFile(filepath.Join(dir2, "g_1.snap.json"))
		if i == 0 {
			texts = []string{string(b)}
		} else if string(b) != texts[0] {
			c.violation("", fmt.Sprintf("struct form %d stores %q, the struct value stores %q", i, vfClip(string(b)), vfClip(texts[0])), cs)
			return
		}
	}
	// multi-entry: same text, and no body line can be mistaken for framing
	os.RemoveAll(dir2)
	vfResetState(false, "", true)
	tt := &vfT{name: "TestA"}
	cfg2.MatchJSON(tt, T)
	cfg2.MatchJSON(tt, `{"second":true}`)
	tt.end()
	data, _ := os.ReadFile(filepath.Join(dir2, "g.snap"))
	es, perr := vfParse(data)
	if perr != nil || len(es) != 2 || es[0].ID != "TestA - 1" || es[1].ID != "TestA - 2" {
		c.violation("", fmt.Sprintf("MatchJSON(%q) then a second call: file is %q (%v)", vfClip(T), vfClip(string(data)), perr), cs)
		return
	}
	if es[0].Body != string(stored) {
		c.violation("", fmt.Sprintf("MatchJSON stores %q, MatchStandaloneJSON stores %q for the same document", vfClip(es[0].Body), vfClip(string(stored))), cs)
		return
	}
	for _, l := range strings.Split(es[0].Body, "\n") {
		if l == "---" || l == "/-/-/-/" || c14HeaderLike.MatchString(l) {
			c.violation("", fmt.Sprintf("stored JSON body has the framing-like line %q", l), cs)
			return
		}
	}
}

func c14RunInvalid(c *vfCtx, cs c14Case, T string) {
	cands := map[string]bool{}
	for i := 1; i < len(T); i++ {
		cands[T[:i]] = true
	}
	for _, g := range []string{T + " x", T + T, T + " " + T, T + ",", strings.ReplaceAll(T, `"`, `'`), "[" + T + ",]", `{"a":` + T + `,}`, "nul", "tru", "undefined", "", " ", T + "\x00", "\xef\xbb\xbf" + T, "// c\n" + T, "{a:" + T + "}", "[" + T, T + "]"} {
		cands[g] = true
	}
	// characters that Unicode (and Go's TrimSpace) call white space but JSON does not, around an otherwise valid document
	for _, w := range []string{"\v", "\f", "\u0085", "\u00a0", "\u2028", "\u2029", "\u3000", "\u1680", "\u2003", "\ufeff"} {
		cands[w+T] = true
		cands[T+w] = true
		cands[" "+w+"\n"+T+"\n"+w] = true
	}
	n := 0
	for in := range cands {
		if json.Valid([]byte(in)) {
			continue
		}
		n++
		for _, form := range []string{"string", "bytes"} {
			for _, api := range []string{"json", "sjson"} {
				dir := c.newWorld()
				vfResetState(false, "", true)
				cfg := WithConfig(Dir(dir), Filename("f"))
				t := &vfT{name: "TestA"}
				var input any = in
				if form == "bytes" {
					input = []byte(in)
				}
				mk := t.mark()
				ops := vfLogged(func() {
					if api == "json" {
						cfg.MatchJSON(t, input)
					} else {
						cfg.MatchStandaloneJSON(t, input)
					}
				})
				c.count("transitions", 1)
				if o := t.outcome(mk); o != "failed" {
					c.violation("", fmt.Sprintf("%s input %q (%s) is not valid JSON (encoding/json rejects it) but the call signalled %s", api, vfClip(in), form, o), cs)
					return
				}
				if muts := vfMutOps(ops); len(muts) > 0 || len(vfSnapDir(dir)) > 0 {
					c.violation("", fmt.Sprintf("invalid input %q: the call wrote to the file system (%s)", vfClip(in), vfShowOps(muts)), cs)
					return
				}
				// the failing call consumed slot 1: the next call addresses slot 2
				mk2 := t.mark()
				if api == "json" {
					cfg.MatchJSON(t, `{"ok":1}`)
				} else {
					cfg.MatchStandaloneJSON(t, `{"ok":1}`)
				}
				t.end()
				obs := vfSnapDir(dir)
				okSlot := false
				if api == "json" {
					es, _ := vfParse(obs["f.snap"].Data)
					okSlot = len(es) == 1 && es[0].ID == "TestA - 2"
				} else {
					_, okSlot = obs["f_2.snap.json"]
					okSlot = okSlot && len(obs) == 1
				}
				if t.outcome(mk2) != "added" || !okSlot {
					c.violation("", fmt.Sprintf("after the failing call with %q the next call did not address slot 2 (%s): directory %v", vfClip(in), t.outcome(mk2), c14Names(obs)), cs)
					return
				}
			}
		}
	}
	c.count("invalid_inputs", int64(n))
}

// vfRaceGoValues is the free-running -race pass shared by C14 and C18: goroutines that are different tests call the JSON / YAML
// entry points concurrently with Go values (the only input form that the library itself has to encode, through whatever
// buffers and encoders it keeps), strings and bytes, through one shared Config. Each goroutine replays its own value, so
// besides the race detector the outcome is known: added once, passed afterwards.
type c14RaceDoc struct {
	Name  string         `json:"name" yaml:"name"`
	Items []int          `json:"items" yaml:"items"`
	Meta  map[string]any `json:"meta" yaml:"meta"`
	Pad   string         `json:"pad" yaml:"pad"`
}

func vfRaceGoValues(c *vfCtx, kinds []string) {
	reps := 8
	if c.thorough() {
		reps = 40
	}
	const nG = 6
	for r := 0; r < reps; r++ {
		dir := filepath.Join(c.scratch, "racegv")
		os.RemoveAll(dir)
		os.MkdirAll(dir, 0o755)
		vfResetState(false, "", true)
		cfg := WithConfig(Dir(dir), Filename("f"))
		cfgS := WithConfig(Dir(dir)) // standalone files are named after the test (a shared Filename would make the tests share files)
		var wg sync.WaitGroup
		var mu sync.Mutex
		var probs []string
		start := make(chan struct{})
		for g := 0; g < nG; g++ {
			wg.Add(1)
			g := g
			go func() {
				defer wg.Done()
				val := c14RaceDoc{Name: fmt.Sprintf("doc-%d", g), Items: []int{g, g + 1, g + 2}, Meta: map[string]any{"g": g, "k": []string{"a", "b"}}, Pad: strings.Repeat(fmt.Sprint(g), 50+g*300)}
				<-start
				for round := 0; round < 6; round++ {
					t := &vfT{name: fmt.Sprintf("TestG%d", g)}
					for _, k := range kinds {
						mk := t.mark()
						switch k {
						case "json":
							cfg.MatchJSON(t, val)
						case "sjson":
							cfgS.MatchStandaloneJSON(t, val)
						case "json-bytes":
							cfg.MatchJSON(t, []byte(fmt.Sprintf(` { "g" : %d , "pad" : %q } `, g, val.Pad)))
						case "yaml":
							cfg.MatchYAML(t, val)
						case "yaml-text":
							cfg.MatchYAML(t, fmt.Sprintf("g: %d\npad: %q\n", g, val.Pad))
						}
						want := "pass"
						if round == 0 {
							want = "added"
						}
						if got := t.outcome(mk); got != want {
							mu.Lock()
							probs = append(probs, fmt.Sprintf("goroutine %d round %d %s: %s, expected %s %v", g, round, k, got, want, t.errs))
							mu.Unlock()
						}
					}
					t.end()
				}
			}()
		}
		close(start)
		wg.Wait()
		c.count("race_runs", 1)
		if len(probs) > 0 {
			c.violation("", "free-running pass (not deterministically replayable): concurrent tests, each replaying its own Go value: "+strings.Join(probs[:1], "; "), map[string]any{"free_running": kinds})
			return
		}
	}
}

func c14Names(o vfDirObs) []string {
	var n []string
	for k, v := range o {
		n = append(n, k+"="+vfClip(string(v.Data)))
	}
	return vfSorted(n)
}

func init() {
	vfDrivers["C14"] = &vfDriver{race: func(c *vfCtx) { vfRaceGoValues(c, []string{"json", "sjson", "json-bytes"}) }}
	vfRegister("C14", func(c *vfCtx, emit func(c14Case)) {
		c.rule = "every document of the bounded grammar (22 scalars, 9 keys, arrays/objects up to depth 2-3) x 4 whitespace presentations x 3 member orders x {string, []byte}, the three input forms of its standard encoding, struct forms, 24 format option sets; " +
			"invalid inputs = every proper prefix and 18 corruptions per document that encoding/json rejects"
		c.assume("duplicate object keys are outside the grammar (encoding/json keeps the last, sorting may reorder them)")
		c14Gen(c, emit)
	}, c14Run)
}
