//go:build verif

package snaps

import (
	"encoding/json"
	"fmt"
	"os"
	"os/exec"
	"path/filepath"
	"strconv"
	"strings"

	"github.com/gkampitakis/go-snaps/internal/difflib"
)

// C13 — the failure report is empty only for identical text and shows the true
// edit (DESIGN §6 C13). Depth-1 exploration: the "operation" is one comparison,
// the alphabet is the bounded input grammar; exhaustive within the bounds.

type c13Case struct {
	S     string `json:"s"` // stored text
	R     string `json:"r"` // received text
	Color bool   `json:"color"`
}

type c13CaseJ c13Case

func (cs c13Case) MarshalJSON() ([]byte, error) {
	j := c13CaseJ(cs)
	j.S, j.R = vfEnc(j.S), vfEnc(j.R)
	return json.Marshal(j)
}

func (cs *c13Case) UnmarshalJSON(b []byte) error {
	var j c13CaseJ
	if err := vfUnmarshalStrict(b, &j); err != nil {
		return err
	}
	j.S, j.R = vfDec(j.S), vfDec(j.R)
	*cs = c13Case(j)
	return nil
}

func c13Seqs(alpha []string, maxLen int) [][]string {
	out := [][]string{{}}
	var rec func(acc []string)
	rec = func(acc []string) {
		if len(acc) == maxLen {
			return
		}
		for _, t := range alpha {
			n := append(append([]string{}, acc...), t)
			out = append(out, n)
			rec(n)
		}
	}
	rec(nil)
	return out
}

func c13Gen(c *vfCtx, emit func(c13Case)) {
	n1, n2 := 5, 3
	if c.thorough() {
		n1, n2 = 7, 4
	}
	c.bound("abc_max_len", n1)
	c.bound("special_alphabets_max_len", n2)
	texts := func(seqs [][]string, nl bool) []string {
		seen := map[string]bool{}
		var out []string
		for _, s := range seqs {
			t := strings.Join(s, "\n")
			for _, v := range []string{t, t + "\n"} {
				if !nl && v != t {
					continue
				}
				if !seen[v] {
					seen[v] = true
					out = append(out, v)
				}
			}
		}
		return out
	}
	pairs := func(ts []string, colors []bool) {
		for _, s := range ts {
			for _, r := range ts {
				for _, col := range colors {
					emit(c13Case{S: s, R: r, Color: col})
				}
			}
		}
	}
	pairs(texts(c13Seqs([]string{"a", "b", "c"}, n1), false), []bool{false})
	pairs(texts(c13Seqs([]string{"a", "b", "c"}, 3), true), []bool{false, true})
	pairs(texts(c13Seqs([]string{"a", "", "- x"}, n2), true), []bool{false, true})
	pairs(texts(c13Seqs([]string{"a\xff", "a\xfe", "é"}, n2), false), []bool{false, true})
	pairs(texts(c13Seqs([]string{"+ x", "  x", "@@ -1 +1 @@", "at f:1"}, 2), true), []bool{false})
	pairs(texts(c13Seqs([]string{"87%", "%20r", "%%", "%!d(MISSING)", "$1"}, 2), true), []bool{false, true})
	pairs(texts(c13Seqs([]string{"a", "a\r", "\r", "a\r\r"}, 3), true), []bool{false, true})
	// tabs, vertical tabs, form feeds, trailing blanks: lines that differ only there are different lines
	pairs(texts(c13Seqs([]string{"a\tb", "a b", "a\vb", "a\fb", "a\tb ", "\t"}, 2), true), []bool{false, true})
	// a valid U+FFFD where the other text has a byte that is not valid UTF-8 (both decode to the same runes)
	pairs(texts(c13Seqs([]string{"caf\ufffd x", "caf\xe9 x", "caf\xff x", "b"}, 2), true), []bool{false, true})
	for _, p := range vfLongTexts(c.thorough()) {
		for _, col := range []bool{false, true} {
			emit(c13Case{S: p[0], R: p[1], Color: col})
			emit(c13Case{S: p[0] + "\n", R: p[1], Color: col})
		}
	}
}

// c13Opcodes checks the line edit script underneath (difflib, exported API only).
func c13Opcodes(a, b []string) string {
	m := difflib.NewMatcher(a, b)
	groups := m.GetGroupedOpCodes(1 << 30)
	var ops []difflib.OpCode
	for _, g := range groups {
		ops = append(ops, g...)
	}
	if len(ops) == 0 {
		if strings.Join(a, "\x00") != strings.Join(b, "\x00") || len(a) != len(b) {
			return "edit script is empty although the sequences differ"
		}
		return ""
	}
	i, j := 0, 0
	var out []string
	for _, o := range ops {
		if o.I1 != i || o.J1 != j || o.I2 < o.I1 || o.J2 < o.J1 || o.I2 > len(a) || o.J2 > len(b) {
			return fmt.Sprintf("opcodes do not tile both texts contiguously: %+v at (%d,%d)", o, i, j)
		}
		switch o.Tag {
		case difflib.OpEqual:
			if o.I2-o.I1 != o.J2-o.J1 {
				return fmt.Sprintf("equal opcode with different lengths %+v", o)
			}
			for k := 0; k < o.I2-o.I1; k++ {
				if a[o.I1+k] != b[o.J1+k] {
					return fmt.Sprintf("opcode %+v marks different lines as equal: %q vs %q", o, a[o.I1+k], b[o.J1+k])
				}
			}
			out = append(out, a[o.I1:o.I2]...)
		case difflib.OpDelete:
			if o.J1 != o.J2 {
				return fmt.Sprintf("delete opcode consumes received lines %+v", o)
			}
		case difflib.OpInsert:
			if o.I1 != o.I2 {
				return fmt.Sprintf("insert opcode consumes stored lines %+v", o)
			}
			out = append(out, b[o.J1:o.J2]...)
		case difflib.OpReplace:
			out = append(out, b[o.J1:o.J2]...)
		default:
			return fmt.Sprintf("unknown tag %+v", o)
		}
		i, j = o.I2, o.J2
	}
	if i != len(a) || j != len(b) {
		return fmt.Sprintf("opcodes stop at (%d,%d) of (%d,%d)", i, j, len(a), len(b))
	}
	if strings.Join(out, "\x00") != strings.Join(b, "\x00") || len(out) != len(b) {
		return "replaying the opcodes on the first text does not yield the second"
	}
	// hunks (context 3) never omit a changed line
	covered := map[[4]int]bool{}
	for _, g := range m.GetGroupedOpCodes(3) {
		for _, o := range g {
			if o.Tag != difflib.OpEqual {
				covered[[4]int{o.I1, o.I2, o.J1, o.J2}] = true
			}
		}
	}
	for _, o := range ops {
		if o.Tag != difflib.OpEqual && !covered[[4]int{o.I1, o.I2, o.J1, o.J2}] {
			return fmt.Sprintf("grouped hunks omit the change %+v", o)
		}
	}
	return ""
}

// c13Report parses a NO_COLOR report and checks it against the two texts.
func c13Report(rep, s, r string) string {
	if strings.Contains(rep, "\x1b") {
		return "NO_COLOR report contains an escape sequence"
	}
	lines := strings.Split(rep, "\n")
	if len(lines) < 6 || lines[0] != "" || !strings.HasPrefix(lines[1], "- Snapshot") || !strings.HasPrefix(lines[2], "+ Received") || lines[3] != "" {
		return fmt.Sprintf("unexpected report header: %q", vfClip(rep))
	}
	num := func(l string) int {
		f := strings.Fields(l)
		n, err := strconv.Atoi(f[len(f)-1])
		if err != nil {
			return -1
		}
		return n
	}
	hdrDel, hdrIns := num(lines[1]), num(lines[2])
	// body: up to the blank line that precedes the "at <file>:<line>" footer
	end := -1
	for k := len(lines) - 1; k >= 4; k-- {
		if strings.HasPrefix(lines[k], "at ") && k+1 < len(lines) && lines[k+1] == "" && k+2 == len(lines) && lines[k-1] == "" {
			end = k - 1
			break
		}
	}
	if end < 0 {
		return fmt.Sprintf("report has no footer: %q", vfClip(rep))
	}
	var del, ins []string
	body := lines[4:end]
	for k := 0; k < len(body); k++ {
		l := body[k]
		switch {
		case strings.HasPrefix(l, "- "):
			del = append(del, l[2:])
		case strings.HasPrefix(l, "+ "):
			ins = append(ins, l[2:])
		case strings.HasPrefix(l, "  "):
		case strings.HasPrefix(l, "@@ -") && k+1 < len(body) && body[k+1] == "":
			k++
		default:
			return fmt.Sprintf("unparsable report line %q", vfClip(l))
		}
	}
	if hdrDel != len(del) || hdrIns != len(ins) {
		return fmt.Sprintf("header counts -%d +%d, body shows %d '-' lines and %d '+' lines", hdrDel, hdrIns, len(del), len(ins))
	}
	count := func(l []string) map[string]int {
		m := map[string]int{}
		for _, x := range l {
			m[x]++
		}
		return m
	}
	sl, rl := count(strings.Split(s, "\n")), count(strings.Split(r, "\n"))
	for _, d := range del {
		sl[d]--
		if sl[d] < 0 {
			return fmt.Sprintf("'-' line %q is not a line of the stored text (or shown too often)", vfClip(d))
		}
	}
	for _, d := range ins {
		rl[d]--
		if rl[d] < 0 {
			return fmt.Sprintf("'+' line %q is not a line of the received text (or shown too often)", vfClip(d))
		}
	}
	for k, v := range sl {
		if rl[k] != v {
			return fmt.Sprintf("stored minus '-' lines and received minus '+' lines differ at line %q (%d vs %d)", vfClip(k), v, rl[k])
		}
	}
	for k, v := range rl {
		if sl[k] != v {
			return fmt.Sprintf("stored minus '-' lines and received minus '+' lines differ at line %q (%d vs %d)", vfClip(k), sl[k], v)
		}
	}
	return ""
}

var c13Cache c02Recorded

func c13Run(c *vfCtx, cs c13Case) {
	if cs.S != cs.R && (vfSpecial(cs.S) || vfSpecial(cs.R) || strings.Count(cs.S, "\n") > 10) {
		c.addSet("nontrivial", vfHashJSON(cs))
	} else if cs.S != cs.R {
		c.addSet("nontrivial", vfHash(cs.S, cs.R))
	}
	// (A) the edit script underneath, on the same line split the report uses
	if !cs.Color {
		a, b := strings.SplitAfter(cs.S, "\n"), strings.SplitAfter(cs.R, "\n")
		a[len(a)-1] += "\n"
		b[len(b)-1] += "\n"
		if p := c13Opcodes(a, b); p != "" {
			c.violation("", "line edit script: "+p, cs)
			return
		}
	}
	// (B) the report as the user sees it: a MatchStandaloneSnapshot replay (raw bytes, no framing)
	key := "c13\x00" + cs.S
	if c13Cache.key != key {
		dir := c.newWorld()
		vfResetState(false, "", true)
		t := &vfT{name: "TestA"}
		vfCall{API: "ssnap", Val: cs.S}.do(t, dir)
		t.end()
		if len(t.errs) > 0 {
			c.harnessErr("C13 record failed: %v", t.errs)
			return
		}
		c13Cache = c02Recorded{key: key, dir: dir}
	}
	vfResetState(false, "", !cs.Color)
	t := &vfT{name: "TestA"}
	mk := t.mark()
	vfCall{API: "ssnap", Val: cs.R}.do(t, c13Cache.dir)
	t.end()
	c.count("transitions", 1)
	got := t.outcome(mk)
	c.outcome(got)
	c.addSet("states", vfHash(strings.Join(t.errs[mk.e:], "\x00")))
	// the texts that are compared are the FORMATTED values (the documented formatter aligns tab-separated cells of a string)
	fs, fr := vfFormat(vfCall{API: "ssnap", Val: cs.S}), vfFormat(vfCall{API: "ssnap", Val: cs.R})
	if (got == "pass") != (fs == fr) || (got != "pass" && got != "failed") {
		c.violation("", fmt.Sprintf("stored %q, received %q, colours=%v: the comparison signalled %s; a report must be absent iff the texts are byte-identical", vfClip(cs.S), vfClip(cs.R), cs.Color, got), cs)
		return
	}
	if got == "failed" {
		rep := t.errs[mk.e]
		if strings.TrimSpace(rep) == "" {
			c.violation("", "the failure carries an empty report", cs)
			return
		}
		if !cs.Color {
			if p := c13Report(rep, fs, fr); p != "" {
				c.violation("", fmt.Sprintf("stored %q, received %q: %s\nreport: %q", vfClip(cs.S), vfClip(cs.R), p, vfClip(rep)), cs)
			}
		}
	}
}

// c13EnvMode: NO_COLOR mode is entered through the environment ("NO_COLOR set to any value", README and the comment in
// internal/colors), read once at package init: decided in fresh processes, one per value.
func c13EnvMode(c *vfCtx) {
	bin := os.Getenv("VERIF_BIN")
	if bin == "" {
		bin = os.Args[0]
	}
	run := func(set bool, val string) (string, bool) {
		out := filepath.Join(c.scratch, "c13child.json")
		os.Remove(out)
		w := filepath.Join(c.scratch, "c13childw")
		os.RemoveAll(w)
		os.MkdirAll(w, 0o755)
		cmd := exec.Command(bin, "-test.run", "^TestVerifDriver$", "-test.count", "1", "-test.timeout", "60s")
		var env []string
		for _, e := range os.Environ() {
			if strings.HasPrefix(e, "NO_COLOR=") || strings.HasPrefix(e, "_=") || strings.HasPrefix(e, "VERIF_") {
				continue
			}
			env = append(env, e)
		}
		env = append(env, "VERIF_PROP=C13", "VERIF_MODE=c13child", "VERIF_TIER=quick", "VERIF_SHARD=0/1", "VERIF_OUT="+out, "VERIF_SCRATCH="+w, "_=/usr/bin/go")
		if set {
			env = append(env, "NO_COLOR="+val)
		}
		cmd.Env = env
		if b, err := cmd.CombinedOutput(); err != nil {
			c.harnessErr("C13 child process failed: %v %s", err, vfClip(string(b)))
			return "", false
		}
		b, _ := os.ReadFile(out)
		var r struct {
			Extra map[string]any `json:"extra"`
		}
		json.Unmarshal(b, &r)
		rep, _ := r.Extra["c13_report"].(string)
		c.count("transitions", 1)
		return rep, rep != ""
	}
	if rep, ok := run(false, ""); ok && !strings.Contains(rep, "\x1b") {
		c.harnessErr("C13 env control: without NO_COLOR the report has no escape sequence (the environment check would be vacuous): %q", vfClip(rep))
	}
	for _, v := range []string{"", "1", "0", "false", "true", " "} {
		rep, ok := run(true, v)
		if !ok {
			c.harnessErr("C13 env: child with NO_COLOR=%q produced no report", v)
			continue
		}
		c.addSet("states", vfHash("env", v, rep))
		if strings.Contains(rep, "\x1b") {
			c.violation("", fmt.Sprintf("process started with NO_COLOR=%q (set, \"any value\"): the report of a failing comparison contains escape sequences: %q", v, vfClip(rep)), map[string]any{"no_color_env": v})
		}
	}
}

func init() {
	vfDrivers["C13"] = &vfDriver{run: func(c *vfCtx) {
		if c.mode == "" && c.shard == 0 {
			c13EnvMode(c)
		}
	}}
	vfRegister("C13", func(c *vfCtx, emit func(c13Case)) {
		if c.mode == "c13child" {
			dir := filepath.Join(c.scratch, "w")
			os.MkdirAll(dir, 0o755)
			cfg := WithConfig(Dir(dir), Filename("f"), Update(false))
			t := &vfT{name: "TestA"}
			WithConfig(Dir(dir), Filename("f")).MatchSnapshot(t, "a\nb\nc")
			t.end()
			t2 := &vfT{name: "TestA"}
			cfg.MatchSnapshot(t2, "a\nX\nc")
			t2.end()
			if len(t2.errs) == 1 {
				c.extra["c13_report"] = t2.errs[0]
			}
			return
		}
		c.rule = "all ordered pairs of line sequences over {a,b,c} up to length 4 (quick) / 5 (thorough), over {a,'',- x}, {a\\xff,a\\xfe,é} and diff-markup look-alikes up to length 3/2, each with/without trailing newline; long texts (12 and 210 lines, popular line) x single/double edits; colours on/off. " +
			"non-trivial = distinct unequal pairs"
		c13Gen(c, emit)
	}, c13Run)
}
