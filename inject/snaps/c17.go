//go:build verif

package snaps

import (
	"errors"
	"fmt"
	"strings"

	"github.com/gkampitakis/go-snaps/match"
)

// C17 — matcher failures fail the test and write nothing (DESIGN §6 C17).

type c17Case struct {
	API   string   `json:"api"`   // json | sjson | yaml
	Atoms []string `json:"atoms"` // matcher list, see c17Atoms
	EOMP  bool     `json:"eomp"`  // ErrOnMissingPath for the missing-path atoms
	Mode  string   `json:"mode"`  // create | env | opt | ci
	Slot  string   `json:"slot"`  // missing | equal | different
}

var c17Atoms = []string{"ok-any", "ok-type", "ok-custom", "miss-any", "miss-type", "miss-custom", "bad-type", "bad-custom", "bad-type2", "bad-syntax", "bad-type-null", "bad-custom-chan", "bad-any-child-after-parent", "bad-type-tagged", "bad-type-anchored", "bad-custom-alias", "miss-type-between", "miss-any-extends", "bad-type-malformed-among", "bad-type-kind", "miss-custom-wild", "bad-typeany-null"}

const (
	c17JSONDoc  = `{"a":1,"b":"x","c":{"d":true},"e":2,"n":null,"f":2.5,"g":7,"arr":[{"id":1},{"k":0},{"id":3}]}`
	c17JSONDoc2 = `{"a":5,"b":"y","c":{"d":false},"e":3,"n":null,"f":9.5,"g":8,"arr":[{"id":1},{"k":0},{"id":3}]}`
	c17YAMLDoc  = "a: 1\nb: x\nc:\n  d: true\ne: 2\nn: null\nt: !!str 10\nan: &an 4\nal: *an\narr:\n  - id: 1\n  - k: 0\n"
	c17YAMLDoc2 = "a: 5\nb: y\nc:\n  d: false\ne: 3\nn: null\nt: !!str 10\nan: &an 4\nal: *an\narr:\n  - id: 1\n  - k: 0\n"
)

type c17Built struct {
	jm    []match.JSONMatcher
	ym    []match.YAMLMatcher
	fails []string // "Name(path)" of every matcher/path that must be reported
	oks   []string // "Name(path)" that must NOT be reported
	skip  bool
}

func c17Build(api string, atoms []string, eomp bool, dropMissing bool) c17Built {
	var b c17Built
	yaml := api == "yaml"
	p := func(s string) string {
		if yaml {
			return "$." + s
		}
		return s
	}
	nType, nBetween := 0, 0
	for _, a := range atoms {
		switch a {
		case "ok-any":
			m := match.Any(p("b"))
			b.jm, b.ym = append(b.jm, m), append(b.ym, m)
			b.oks = append(b.oks, `Any("`+p("b")+`")`)
		case "ok-type":
			if yaml {
				b.ym = append(b.ym, match.Type[uint64](p("a")))
			} else {
				b.jm = append(b.jm, match.Type[float64](p("a")))
			}
			nType++
			if nType == 1 {
				b.oks = append(b.oks, `Type("`+p("a")+`")`)
			} else {
				// matchers take effect left to right: the first one already replaced the number by a string placeholder
				b.fails = append(b.fails, `Type("`+p("a")+`")`)
			}
		case "ok-custom":
			m := match.Custom(p("c.d"), func(v any) (any, error) { return "<bool>", nil })
			b.jm, b.ym = append(b.jm, m), append(b.ym, m)
			b.oks = append(b.oks, `Custom("`+p("c.d")+`")`)
		case "miss-any":
			if dropMissing {
				continue
			}
			m := match.Any(p("missing")).ErrOnMissingPath(eomp)
			b.jm, b.ym = append(b.jm, m), append(b.ym, m)
			if eomp {
				b.fails = append(b.fails, `Any("`+p("missing")+`")`)
			}
		case "miss-type":
			if dropMissing {
				continue
			}
			m := match.Type[string](p("missing")).ErrOnMissingPath(eomp)
			b.jm, b.ym = append(b.jm, m), append(b.ym, m)
			if eomp {
				b.fails = append(b.fails, `Type("`+p("missing")+`")`)
			}
		case "miss-custom":
			if dropMissing {
				continue
			}
			m := match.Custom(p("missing"), func(v any) (any, error) { return "never", nil }).ErrOnMissingPath(eomp)
			b.jm, b.ym = append(b.jm, m), append(b.ym, m)
			if eomp {
				b.fails = append(b.fails, `Custom("`+p("missing")+`")`)
			}
		case "bad-type":
			m := match.Type[string](p("e")).ErrOnMissingPath(eomp)
			b.jm, b.ym = append(b.jm, m), append(b.ym, m)
			b.fails = append(b.fails, `Type("`+p("e")+`")`)
		case "bad-type2":
			// wrong type on a nested bool, and (same matcher) a satisfied path: only the failing path is named
			m := match.Type[float64](p("c.d")).ErrOnMissingPath(eomp)
			b.jm, b.ym = append(b.jm, m), append(b.ym, m)
			b.fails = append(b.fails, `Type("`+p("c.d")+`")`)
		case "bad-type-null":
			// the path EXISTS and holds an explicit null: a wrong type, not a missing path, whatever ErrOnMissingPath says
			m := match.Type[string](p("n")).ErrOnMissingPath(eomp)
			b.jm, b.ym = append(b.jm, m), append(b.ym, m)
			b.fails = append(b.fails, `Type("`+p("n")+`")`)
		case "bad-custom":
			// the path exists: the callback's error is a failure whatever ErrOnMissingPath says
			m := match.Custom(p("b"), func(v any) (any, error) { return nil, errors.New("custom says no") }).ErrOnMissingPath(eomp)
			b.jm, b.ym = append(b.jm, m), append(b.ym, m)
			b.fails = append(b.fails, `Custom("`+p("b")+`")`)
		case "bad-custom-chan":
			// the callback returns a value that cannot be encoded as JSON: the replacement fails, which is a failure of this matcher
			// (the YAML encoder of the library's dependency renders such values, so the atom is JSON only)
			if yaml {
				b.skip = true
				continue
			}
			m := match.Custom(p("e"), func(v any) (any, error) { return map[string]any{"c": make(chan int)}, nil }).ErrOnMissingPath(eomp)
			b.jm, b.ym = append(b.jm, m), append(b.ym, m)
			b.fails = append(b.fails, `Custom("`+p("e")+`")`)
		case "ok-type-fg":
			if !yaml {
				b.jm = append(b.jm, match.Type[float64](p("f"), p("g")))
			}
		case "miss-type-between":
			// ONE Type matcher over three paths, the middle one absent: with ErrOnMissingPath(false) the other two are still replaced
			if yaml {
				b.skip = true
				continue
			}
			nBetween++
			if nBetween > 1 && !eomp {
				// matchers take effect left to right: f and g already hold string placeholders (a FAILING matcher's output is discarded, so not with eomp)
				b.fails = append(b.fails, `Type("`+p("f")+`")`, `Type("`+p("g")+`")`)
			}
			if dropMissing {
				b.jm = append(b.jm, match.Type[float64](p("f"), p("g")))
				continue
			}
			b.jm = append(b.jm, match.Type[float64](p("f"), p("missing"), p("g")).ErrOnMissingPath(eomp))
			if eomp {
				b.fails = append(b.fails, `Type("`+p("missing")+`")`)
			}
		case "miss-any-extends":
			// ONE Any: an existing path first, then a MISSING key whose text merely extends it (b, b_total): reported like any missing path
			m := match.Any(p("b"), p("b_total")).ErrOnMissingPath(eomp)
			if dropMissing {
				m = match.Any(p("b"))
			}
			b.jm, b.ym = append(b.jm, m), append(b.ym, m)
			if eomp && !dropMissing {
				b.fails = append(b.fails, `Any("`+p("b_total")+`")`)
			}
		case "bad-type-malformed-among":
			// ONE YAML Type over a path that cannot be parsed, a missing path and a wrong-typed value: all three are named
			if !yaml {
				b.skip = true
				continue
			}
			b.ym = append(b.ym, match.Type[string]("c.d", "$.nowhere", "$.e"))
			b.fails = append(b.fails, `Type("c.d")`, `Type("$.nowhere")`, `Type("$.e")`)
		case "bad-any-child-after-parent":
			// ONE Any whose first path replaces the parent of its second path: the second path no longer exists when its turn comes
			if yaml {
				b.skip = true
				continue
			}
			m := match.Any(p("c"), p("c.d"))
			b.jm = append(b.jm, m)
			b.fails = append(b.fails, `Any("`+p("c.d")+`")`)
		case "bad-type-tagged", "bad-type-anchored", "bad-custom-alias":
			// YAML scalars that carry a tag, an anchor or are an alias: the matcher sees the decoded value like for any other scalar
			if !yaml {
				b.skip = true
				continue
			}
			switch a {
			case "bad-type-tagged":
				b.ym = append(b.ym, match.Type[uint64]("$.t")) // `!!str 10` is a string
				b.fails = append(b.fails, `Type("$.t")`)
			case "bad-type-anchored":
				b.ym = append(b.ym, match.Type[string]("$.an")) // `&an 4` is a number
				b.fails = append(b.fails, `Type("$.an")`)
			default:
				b.ym = append(b.ym, match.Custom("$.al", func(v any) (any, error) {
					if _, isStr := v.(string); isStr {
						return v, nil
					}
					return nil, errors.New("alias value is not a string")
				})) // `*an` is the number 4
				b.fails = append(b.fails, `Custom("$.al")`)
			}
		case "bad-typeany-null":
			// an explicit null holds no value of any type, interface types included; a failing path listed BEFORE a satisfied one
			m := match.Type[any](p("n"), p("b")).ErrOnMissingPath(eomp)
			b.jm, b.ym = append(b.jm, m), append(b.ym, m)
			b.fails = append(b.fails, `Type("`+p("n")+`")`)
		case "bad-type-kind":
			// the two composite kinds are different types: a list expected where a mapping is, a mapping expected where a list is
			m1, m2 := match.Type[[]any](p("c")).ErrOnMissingPath(eomp), match.Type[map[string]any](p("arr")).ErrOnMissingPath(eomp)
			b.jm, b.ym = append(b.jm, m1, m2), append(b.ym, m1, m2)
			b.fails = append(b.fails, `Type("`+p("c")+`")`, `Type("`+p("arr")+`")`)
		case "miss-custom-wild":
			// a path through every element of a list that is not there (gjson `#`): a missing path like any other
			if yaml {
				b.skip = true
				continue
			}
			if dropMissing {
				continue
			}
			m := match.Custom(p("nolist.#.id"), func(v any) (any, error) { return "never", nil }).ErrOnMissingPath(eomp)
			m2 := match.Any(p("b.#.id")).ErrOnMissingPath(eomp) // b is a string, not a list
			b.jm = append(b.jm, m, m2)
			if eomp {
				b.fails = append(b.fails, `Custom("`+p("nolist.#.id")+`")`, `Any("`+p("b.#.id")+`")`)
			}
		case "bad-syntax":
			if !yaml {
				b.skip = true
				continue
			}
			m := match.Any("$..[")
			b.ym = append(b.ym, m)
			b.fails = append(b.fails, `Any("$..[")`)
		}
	}
	// an ok atom whose name(path) also appears among the failures cannot be told apart in the text
	for _, f := range b.fails {
		for i := 0; i < len(b.oks); i++ {
			if b.oks[i] == f {
				b.oks = append(b.oks[:i], b.oks[i+1:]...)
				i--
			}
		}
	}
	return b
}

func c17Gen(c *vfCtx, emit func(c17Case)) {
	var lists [][]string
	var rec func(acc []string)
	maxLen := 3
	if c.thorough() {
		maxLen = 4
	}
	rec = func(acc []string) {
		if len(acc) > 0 {
			lists = append(lists, append([]string{}, acc...))
		}
		if len(acc) == maxLen {
			return
		}
		for _, a := range c17Atoms {
			rec(append(acc, a))
		}
	}
	rec(nil)
	if false {
		// selected triples: every atom between two others
		for i, a := range c17Atoms {
			lists = append(lists, []string{c17Atoms[(i+3)%len(c17Atoms)], a, c17Atoms[(i+6)%len(c17Atoms)]}, []string{a, a, a},
				[]string{"miss-any", "miss-type", a}, []string{a, "miss-custom", "miss-any"})
		}
	}
	c.bound("matcher_lists", len(lists))
	c.bound("atoms", c17Atoms)
	for _, api := range []string{"json", "sjson", "yaml"} {
		for li, l := range lists {
			for _, eomp := range []bool{true, false} {
				for mi, mode := range []string{"create", "env", "opt", "ci"} {
					for si, slot := range []string{"missing", "equal", "different"} {
						if !c.thorough() && len(l) > 1 && (li+mi+si)%3 != 0 {
							continue
						}
						emit(c17Case{API: api, Atoms: l, EOMP: eomp, Mode: mode, Slot: slot})
					}
				}
			}
		}
	}
}

func c17Run(c *vfCtx, cs c17Case) {
	b := c17Build(cs.API, cs.Atoms, cs.EOMP, false)
	if b.skip {
		return
	}
	c.addSet("nontrivial", vfHashJSON(cs))
	doc, doc2 := c17JSONDoc, c17JSONDoc2
	if cs.API == "yaml" {
		doc, doc2 = c17YAMLDoc, c17YAMLDoc2
	}
	do := func(cfg *Config, t *vfT, d string, bb c17Built) {
		switch cs.API {
		case "json":
			cfg.MatchJSON(t, d, bb.jm...)
		case "sjson":
			cfg.MatchStandaloneJSON(t, d, bb.jm...)
		default:
			cfg.MatchYAML(t, d, bb.ym...)
		}
	}
	ci, env, upd := false, "", ""
	switch cs.Mode {
	case "env":
		env = "true"
	case "opt":
		upd = "true"
	case "ci":
		ci = true
	}
	mkcfg := func(dir string) *Config {
		o := []func(*Config){Dir(dir), Filename("f")}
		if upd == "true" {
			o = append(o, Update(true))
		}
		return WithConfig(o...)
	}
	run := func(bb c17Built) (dir string, t *vfT, mutated bool, ops string) {
		dir = c.newWorld()
		if bb.jm == nil && bb.ym == nil {
			bb = c17Build(cs.API, nil, false, false)
		}
		// prepare the slot: recorded with the satisfied matchers only, so that "equal" is meaningful
		if cs.Slot != "missing" {
			vfResetState(false, "", true)
			tp := &vfT{name: "TestA"}
			d := doc
			if cs.Slot == "different" {
				d = doc2
			}
			do(WithConfig(Dir(dir), Filename("f")), tp, d, c17Build(cs.API, c17OnlyOK(cs.Atoms), false, false))
			tp.end()
			if len(tp.errs) > 0 {
				c.harnessErr("C17 setup failed: %v", tp.errs)
			}
		}
		vfPlantSentinel(dir)
		before := vfSnapDir(dir)
		vfResetState(ci, env, true)
		t = &vfT{name: "TestA"}
		o := vfLogged(func() { do(mkcfg(dir), t, doc, bb) })
		ops = vfShowOps(vfMutOps(o))
		mutated = vfDirDiff(before, vfSnapDir(dir), true) != "" || len(vfMutOps(o)) > 0
		return
	}
	dir, t, mutated, ops := run(b)
	c.count("transitions", 1)
	c.addSet("states", vfHash(string(vfAllBytes(dir)), fmt.Sprint(len(t.errs), len(t.logs)), cs.Mode))
	m := vfNewModel(ci, env)
	if len(b.fails) > 0 {
		c.outcome("matcher-failure")
		if len(t.errs) != 1 || len(t.logs) != 0 {
			c.violation("", fmt.Sprintf("matchers %v (failing: %v): expected exactly one failure, got errors=%d logs=%d %v", cs.Atoms, b.fails, len(t.errs), len(t.logs), t.errs), cs)
			return
		}
		for _, f := range b.fails {
			// every failing (matcher, path) must be named; identical duplicates need not be repeated
			if !c17Named(t.errs[0], f) {
				c.violation("", fmt.Sprintf("matchers %v: the failure must name match.%s, it says: %q", cs.Atoms, f, vfClip(t.errs[0])), cs)
				return
			}
		}
		for _, ok := range b.oks {
			if c17Named(t.errs[0], ok) {
				c.violation("", fmt.Sprintf("matchers %v: the failure names the satisfied matcher match.%s: %q", cs.Atoms, ok, vfClip(t.errs[0])), cs)
				return
			}
		}
		if mutated {
			c.violation("", fmt.Sprintf("matchers %v failed, yet the call wrote to the snapshot directory (%s) in mode %s, slot %s", cs.Atoms, ops, cs.Mode, cs.Slot), cs)
			return
		}
		// later calls of the test keep their slots: the next call addresses slot 2
		mk := t.mark()
		vfResetMode(false, "")
		do(WithConfig(Dir(dir), Filename("f")), t, doc, c17Build(cs.API, nil, false, false))
		t.end()
		obs := vfSnapDir(dir)
		ok := false
		if cs.API == "sjson" {
			_, ok = obs["f_2.snap.json"]
		} else {
			es, _ := vfParse(obs["f.snap"].Data)
			for _, e := range es {
				if e.ID == "TestA - 2" {
					ok = true
				}
			}
		}
		if t.outcome(mk) != "added" || !ok {
			c.violation("", fmt.Sprintf("after the failing call the next call of the test did not address slot 2 (%s)", t.outcome(mk)), cs)
			return
		}
		// the same matcher VALUES used for another call (a package-level matcher list, a loop, -count 2): the same failure again
		vfResetState(ci, env, true)
		tr := &vfT{name: "TestR"}
		do(mkcfg(dir), tr, doc, b)
		tr.end()
		c.count("transitions", 1)
		if len(tr.errs) != 1 {
			c.violation("", fmt.Sprintf("matchers %v (failing: %v) used a second time: expected exactly one failure again, got errors=%d logs=%d %v", cs.Atoms, b.fails, len(tr.errs), len(tr.logs), tr.errs), cs)
			return
		}
		for _, f := range b.fails {
			if !c17Named(tr.errs[0], f) {
				c.violation("", fmt.Sprintf("matchers %v used a second time: the failure must name match.%s, it says: %q", cs.Atoms, f, vfClip(tr.errs[0])), cs)
				return
			}
		}
		return
	}
	// no failing matcher: missing paths (if any) are ignored; the call behaves like the run without them
	var want string
	switch cs.Slot {
	case "missing":
		want = "failed"
		if m.canCreate(upd) {
			want = "added"
		}
	case "equal":
		want = "pass"
	case "different":
		want = "failed"
		if m.canUpdate(upd) {
			want = "updated"
		}
	}
	got := t.outcome(vfMark{})
	c.outcome("no-failure:" + got)
	if got != want {
		c.violation("", fmt.Sprintf("matchers %v (none failing, ErrOnMissingPath=%v), mode %s, slot %s: signalled %s, expected %s %v", cs.Atoms, cs.EOMP, cs.Mode, cs.Slot, got, want, t.errs), cs)
		return
	}
	bytes1 := vfAllBytes(dir)
	_, t2, _, _ := run(c17Build(cs.API, cs.Atoms, cs.EOMP, true))
	if t2.outcome(vfMark{}) != got || string(vfAllBytes(c.scratch+"/w")) != string(bytes1) {
		c.violation("", fmt.Sprintf("matchers %v with ErrOnMissingPath(false): result differs from the run with the missing-path matchers removed", cs.Atoms), cs)
	}
	_ = mutated
}

func c17OnlyOK(atoms []string) []string {
	var out []string
	seenType, seenBetween := false, false
	for _, a := range atoms {
		if a == "ok-type" && seenType {
			continue
		}
		if a == "miss-any-extends" {
			out = append(out, "ok-any") // what it does when the absent path is ignored: it masks b
		}
		if a == "miss-type-between" && !seenBetween {
			out = append(out, "ok-type-fg") // what it does when the absent path is ignored
			seenBetween = true
		}
		if strings.HasPrefix(a, "ok-") {
			out = append(out, a)
			seenType = seenType || a == "ok-type"
		}
	}
	return out
}

// vfResetMode changes the mode without touching the registries.
func vfResetMode(ci bool, env string) {
	isCI = ci
	updateVAR = env
}

func init() {
	vfRegister("C17", func(c *vfCtx, emit func(c17Case)) {
		c.rule = "every matcher list of <=2 (quick; plus selected triples) / <=3 (thorough) atoms over 10 atom kinds (satisfied Any/Type/Custom; missing path via Any/Type/Custom on the SAME path; wrong Type; failing Custom; unparsable YAML path) " +
			"x ErrOnMissingPath x {create, UPDATE_SNAPS=true, Update(true), CI} x slot {missing, equal, different} x {MatchJSON, MatchStandaloneJSON, MatchYAML}"
		c17Gen(c, emit)
	}, c17Run)
}

// c17Named: does some line of the failure text name the matcher and the path?
// f has the form Name("path"); the wording around them is free, the path must
// stand alone (not as part of a longer path or word).
func c17Named(text, f string) bool {
	i := strings.Index(f, "(\"")
	name, path := f[:i], f[i+2:len(f)-2]
	isPathChar := func(b byte) bool {
		return b == '.' || b == '$' || b == '_' || b == '[' || (b >= '0' && b <= '9') || (b >= 'a' && b <= 'z') || (b >= 'A' && b <= 'Z')
	}
	for _, line := range strings.Split(text, "\n") {
		if !strings.Contains(line, name) {
			continue
		}
		for from := 0; ; {
			j := strings.Index(line[from:], path)
			if j < 0 {
				break
			}
			j += from
			before := j == 0 || !isPathChar(line[j-1])
			after := j+len(path) == len(line) || !isPathChar(line[j+len(path)])
			if before && after {
				return true
			}
			from = j + 1
		}
	}
	return false
}
