#!/bin/bash
# tools/coverage.sh [tier] — diagnostic: which statements of the library does NO check execute?
# Runs every check with VERIF_COVERDIR set (coverage-instrumented driver / E3 binaries), merges the per-property
# unions and prints the uncovered blocks with their source text. Output: /verif/coverage-uncovered.txt
set -u
cd /verif
TIER=${1:-quick}
COV=/dev/shm/verif-cov-$$
EV=/dev/shm/verif-cov-ev-$$
rm -rf "$COV" "$EV"; mkdir -p "$COV" "$EV"
for p in $(seq -f "C%02g" 1 20); do
  VERIF_COVERDIR=$COV VERIF_NOCONFIRM=1 ./bin/vcheck $p --tier $TIER --evidence-dir "$EV" 2>&1 | tail -1
done
python3 - "$COV" <<'PY' > /verif/coverage-uncovered.txt
import sys,glob,re,collections
cov=sys.argv[1]
blocks={}
for f in glob.glob(cov+'/*.cover'):
    for l in open(f):
        if l.startswith('mode:'): continue
        b,n=l.rsplit(' ',1)
        blocks[b]=blocks.get(b,False) or n.strip()=='1'
byfile=collections.defaultdict(list)
for b,hit in blocks.items():
    m=re.match(r'(.+):(\d+)\.(\d+),(\d+)\.(\d+) (\d+)$',b)
    if not m: continue
    byfile[m.group(1)].append((int(m.group(2)),int(m.group(4)),int(m.group(6)),hit))
tot=sum(n for v in byfile.values() for _,_,n,_ in v); hit=sum(n for v in byfile.values() for _,_,n,h in v if h)
print('statements: %d, executed by at least one check: %d (%.1f%%)'%(tot,hit,100.0*hit/max(tot,1)))
for f in sorted(byfile):
    rel=f.replace('github.com/gkampitakis/go-snaps/','')
    try: src=open('/repo/'+rel).read().split('\n')
    except Exception: src=[]
    un=sorted((a,b,n) for a,b,n,h in byfile[f] if not h)
    t=sum(n for _,_,n,_ in byfile[f]); u=sum(n for _,_,n in un)
    print('\n== %s: %d of %d statements never executed'%(rel,u,t))
    for a,b,n in un:
        txt=' | '.join(s.strip() for s in src[a-1:min(b,a+3)] if s.strip())[:160]
        print('  %d-%d (%d): %s'%(a,b,n,txt))
PY
rm -rf "$COV" "$EV"
head -3 /verif/coverage-uncovered.txt
