#!/usr/bin/env python3
"""Print the sub-agent prompt for one property (property text only; nothing else from /verif)."""
import json, sys
pid = sys.argv[1]
rnd = sys.argv[2] if len(sys.argv) > 2 else ''
for l in open('/verif/properties.jsonl'):
    p = json.loads(l)
    if p['id'] == pid:
        break
else:
    sys.exit('no such property')
wt = f'/tmp/seed{rnd}-{pid}'
out = f'/tmp/seed{rnd}-out/{pid}'
import glob, os
used=[]
for d in sorted(glob.glob(f'/verif/seeded/{pid}-*')):
    try:
        m=json.load(open(d+'/meta.json')); used.append('- '+m['summary'].replace('\n',' ')[:260])
    except Exception: pass
USED_IDEAS = ('\n\nIDEAS ALREADY USED by earlier seeders for this property (do NOT repeat these or close variants of them; find different mechanisms and different code sites):\n' + '\n'.join(used)) if (rnd and rnd != '2' and used) else ''
print(f"""You are helping test a verification harness for the Go library gkampitakis/go-snaps (a Jest-like snapshot testing library for Go). Your job: write realistic, subtle *bugs* (source changes) that break ONE stated behavioural property of the library while the library still compiles and its existing test suite still passes. This is mutation seeding for evaluating bug-finding tools; nothing you write is ever merged.

You have your own scratch git worktree of the repository at {wt} (a detached checkout of the pinned commit). Work ONLY inside {wt} and {out}. Do NOT read or touch /verif or /repo (they are off limits, so that what you write is independent).

IMPORTANT: never use `git stash` (the stash is shared with other worktrees of the same repository and gets mixed up); to test the pristine direction save your change with `git diff > /some/file`, run `git checkout -- .`, and re-apply with `git apply /some/file`.

The sandbox has no network. Every shell call that runs go needs:
  export GOFLAGS=-mod=mod GOPROXY=off GOSUMDB=off GOTOOLCHAIN=local
The existing test suite is run with:  cd {wt} && go test -vet=off -count=1 ./...   (takes ~2 s; all packages must stay `ok`).

THE PROPERTY ({pid}: {p['title']}):
{p['statement']}

Quantified over: {p['quantifier']['text']}

Code locations where the mechanisms behind this property live (for orientation): {', '.join(p['anchors']['files'])}{USED_IDEAS}

WHAT TO PRODUCE: two *different* changes, A and B (different mechanisms / different code sites), each of which:
 1. is a change to non-test source files of the library (no test files edited, no new dependencies), written as a plausible refactoring / optimisation / "fix" a developer might really commit;
 2. still compiles, and the full existing suite (`go test -vet=off -count=1 ./...` in {wt}) still passes with it — run it to be sure;
 3. makes the library violate the property above for SOME inputs / histories / schedules / configurations;
 4. needs something SPECIFIC to manifest — a particular interleaving, a multi-step sequence of operations, an unusual input (special line contents, more than 9 calls, particular names, particular flag/env combination), a second run, or two cooperating sites that each look fine alone. NOT something that ordinary use (e.g. the README examples) would expose at once.
For each change also write a demonstration: a small Go test file (package snaps white-box test or an external test using only the public API; you may use a mock of the testingT interface like the repo's own tests do, or a scratch module with `replace github.com/gkampitakis/go-snaps => {wt}`) that FAILS with the change applied and PASSES on the pristine checkout. Verify both directions yourself.

DELIVERABLES — write them to {out}/A/ and {out}/B/ (create the directories):
  patch.diff   — `git diff` of the change only (library source files; must apply with `git apply` to the pristine checkout)
  demo_test.go — the demonstration test (say in a comment at the top where it must be placed and how to run it)
  meta.json    — {{"property": "{pid}", "summary": "...what the change does...", "needs": "...what is needed for the violation to manifest...", "ran": ["...commands you ran and their results..."]}}
When you are done, leave {wt} pristine (`git -C {wt} checkout -- . && git -C {wt} clean -fdq`). Remove any scratch modules or build output you created outside {out}.

Reply with a 5-line summary per change: files touched, what breaks, what is needed to trigger it, and confirmation that (a) the suite passes with the change, (b) the demo fails with it, (c) the demo passes without it.""")
