#!/bin/bash
# seedtest.sh <seed-dir> <tier> <prop> [<prop>...]
# Confirms a seeded change (suite passes with it; demo fails with it and passes
# without it) in a scratch worktree of /repo's HEAD, then runs the given checks
# against that worktree (VERIF_REPO) and reports which of them raise a VIOLATION.
# Nothing is written to /repo's working tree; the worktree is removed at the end.
set -u
export GOFLAGS=-mod=mod GOPROXY=off GOSUMDB=off GOTOOLCHAIN=local
SEED=$(readlink -f "$1"); TIER=$2; shift 2
NAME=$(echo "$SEED" | tr '/' '_' | tail -c 30)
W=/dev/shm/seedwt-$NAME-$$
EV=/dev/shm/seedev-$NAME-$$
cleanup() { git -C /repo worktree remove --force "$W" >/dev/null 2>&1; rm -rf "$W" "$EV"; git -C /repo worktree prune; }
trap cleanup EXIT
git -C /repo worktree add -q --detach "$W" HEAD || exit 2
if ! git -C "$W" apply "$SEED/patch.diff" 2>/dev/null; then
  if ! (cd "$W" && patch -p1 --fuzz=3 -s < "$SEED/patch.diff"); then echo "RESULT $SEED patch-does-not-apply"; exit 3; fi
  echo "note: patch applied with fuzz"
fi
(cd "$W" && go build ./... ) || { echo "RESULT $SEED does-not-build"; exit 3; }
SUITE=$(cd "$W" && go test -vet=off -count=1 ./... 2>&1 | grep -v "no test files")
if echo "$SUITE" | grep -qv '^ok'; then echo "$SUITE" | tail -20; echo "RESULT $SEED suite-fails-with-change"; SUITEOK=no; else SUITEOK=yes; fi
# demo
DEMO=""
if [ -f "$SEED/demo_test.go" ] && [ "${SKIPDEMO:-}" = "" ]; then
  PKG=$(grep -m1 '^package ' "$SEED/demo_test.go" | awk '{print $2}')
  case "$PKG" in
    snaps|snaps_test) D=snaps;; match|match_test) D=match;; difflib) D=internal/difflib;; yaml) D=match/internal/yaml;; examples|examples_test) D=examples;; *) D="";;
  esac
  if [ -n "$D" ]; then
    # honour the placement the demo's header asks for (some demos derive the snapshot file name from their own file name)
    DN=$(head -30 "$SEED/demo_test.go" | grep -oE "$D/[A-Za-z0-9_.]+_test\.go" | head -1 | xargs -r basename)
    [ -z "$DN" ] && DN=zz_seed_demo_test.go
    cp "$SEED/demo_test.go" "$W/$D/$DN"
    # and the -run pattern it asks for (a demonstration that re-creates package state may disturb the package's own tests)
    RUNPAT=$(head -40 "$SEED/demo_test.go" | grep -oE -- "-run[ =]+'?\"?[A-Za-z0-9_|^$/().*]+" | head -1 | sed -E "s/-run[ =]+['\"]?//")
    RUNARG=""; [ -n "$RUNPAT" ] && RUNARG="-run $RUNPAT"
    WITH=$(cd "$W" && timeout 600 go test -vet=off -count=1 $RUNARG ./$D 2>&1 | tail -5)
    if echo "$WITH" | grep -q '^ok'; then DEMO="demo-passes-with-change(!)"; else DEMO="demo-fails-with-change"; fi
    (cd "$W" && git apply -R "$SEED/patch.diff" 2>/dev/null || patch -p1 -R --fuzz=3 -s < "$SEED/patch.diff")
    WITHOUT=$(cd "$W" && timeout 600 go test -vet=off -count=1 $RUNARG ./$D 2>&1 | tail -5)
    if echo "$WITHOUT" | grep -q '^ok'; then DEMO="$DEMO,demo-passes-without"; else DEMO="$DEMO,demo-fails-without(!)"; echo "$WITHOUT"; fi
    rm -f "$W/$D/$DN"
    (cd "$W" && git checkout -q -- . && git clean -fdq && (git apply "$SEED/patch.diff" 2>/dev/null || patch -p1 --fuzz=3 -s < "$SEED/patch.diff"))
  else
    DEMO="demo-needs-manual-run(package $PKG)"
  fi
fi
echo "CONFIRM $SEED suite_ok=$SUITEOK $DEMO"
mkdir -p "$EV"
for P in "$@"; do
  OUT=$(VERIF_REPO="$W" /verif/bin/vcheck "$P" --tier "$TIER" --evidence-dir "$EV" 2>&1)
  RC=$?
  N=$(echo "$OUT" | grep -c '^VIOLATION')
  echo "CHECK $SEED $P tier=$TIER exit=$RC violations_lines=$N"
  echo "$OUT" | grep -A3 '^--- ' | cut -c1-400 | head -12
done
