#!/bin/bash
# run_all.sh <tier> <evidence-dir> [props...]: run checks one after another, print one line per check
TIER=$1; EV=$2; shift 2
PROPS=${@:-C01 C02 C03 C04 C05 C06 C07 C08 C09 C10 C11 C12 C13 C14 C15 C16 C17 C18 C19 C20}
mkdir -p "$EV"
for p in $PROPS; do
  S=$(date +%s)
  /verif/bin/vcheck $p --tier $TIER --evidence-dir "$EV" 2>&1 | grep -E "^(C[0-9]+ tier|VIOLATION|harness|KNOWN)" | cut -c1-220
  echo "$p exit=${PIPESTATUS[0]} wall=$(( $(date +%s) - S ))s"
done
echo ALL-DONE
