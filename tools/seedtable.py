#!/usr/bin/env python3
"""Print the DESIGN.md table of one round of seeded changes from /verif/seeded/*/meta.json.
usage: seedtable.py <round> ; causes of first-run misses are kept here (written by hand)."""
import json, glob, sys
rnd = int(sys.argv[1])
CAUSE = {
 # round 3
 'C02-F': 'no special token exactly at a 4 KiB / 64 KiB buffer boundary: boundary-aligned lines added (also to C01)',
 'C03-F': 'every failing call failed with a diff; calls rejected before a snapshot is taken (invalid JSON/YAML, matcher error) at every position of a 4-call test added',
 'C06-E': 'no shared file above 64 KiB in the free-running -race pass (the cooperative scheduler cannot see it: os.ReadFile is one step): 88 KB shared file with 8 readers and a writer added',
 'C08-E': 'every skip happened before the first Match* call: `skip@k` (skip after k calls) added to the E3 module',
 'C08-F': 'no test file whose own name contains `.snap`: c.snapshot_test.go added to the E3 module',
 'C09-E': 'C09 ran under {unset,true,clean,yes} only (caught by C05 at first run): 1, TRUE, t added to its process matrix',
 'C10-E': 'bodies had many lines but no single line above 4 KiB / 64 KiB: 5 KB and 70 KB one-line bodies added',
 'C11-E': 'every combination was a first call (creation); the update path never ran: the binary now executes every combination twice (-test.count 2: create, then changed value with Update(true))',
 'C11-F': 'every call used a fresh Config (caught by C12): shape "Config used for MatchStandaloneJSON before" added',
 'C12-E': 'the differential compared outcome and file names, not what was stored, and every call had its own document: one fixed document with different matcher lists added, stored text compared',
 'C13-F': 'invalid UTF-8 was only paired with other invalid bytes: a valid U+FFFD against an invalid byte added',
 'C14-E': 'a []byte input was never looked at again after the call: the caller\'s slice is compared afterwards and handed in a second time',
 'C14-F': 'invalid inputs were prefixes/corruptions in JSON terms; white space in Unicode terms (NBSP, VT, FF, U+2028 …) around a valid document added',
 'C16-E': 'no sibling keys that are textual prefixes of each other (caught by C15): document with created/createdBy, k1/k10, id/id_token added',
 'C18-E': 'a Go value was marshalled 21x with nothing in between: every single/pair of unrelated calls (failing ones included) interposed; later generalised (12.10)',
 'C19-F': 'every standalone call was accepted: calls rejected before a snapshot is taken at every position added',
 'C20-E': 'no call whose write fails: `wfail:*` ops (snapshot directory below a regular file) added',
 'C20-F': 'Clean always saw -test.count=1: histories executed 2 and 3 times with the flag set accordingly added',
 # round 4
 'C01-G': 'record + one replay in a fresh state only: the same tests are now executed twice more in the same process state (what -count 3 does) (caught by C03 at first run)',
 'C01-H': 'pre-existing files always held the entries in the order the library wrote them: replay against every permutation of the recorded entries added (caught by C03 at first run)',
 'C02-H': 'no text containing terminal control sequences: pairs differing only in ANSI sequences / control characters / invisible code points added',
 'C05-G': 'state "different" was only reached by changing the value: a stored JSON text re-laid-out by hand (same document) added as a fourth slot state',
 'C07-G': 'quick tier had no two test names that are equal under natural ordering (c_01 / c_1 only in thorough; caught by C10): added to quick',
 'C07-H': 'no value with CR LF line ends (excluded as the documented limitation): added with a before/after-Clean differential that holds whether or not such values replay',
 'C09-G': 'all executions of -count made the same number of calls (caught by C07): 3-then-2, 2-then-3, 1-then-3 families with standalone calls added',
 'C09-H': 'live values had no header-looking lines in report mode: added to half of the cases',
 'C10-H': 'one multi-entry file per case: two more addressed files (examined before and after) holding a stale entry under every live id added',
 'C11-G': 'no test file with a dot inside its name: dotted.v2_test.go added',
 'C11-H': 'names with `%` but none with the literal `_%d` (caught by C19): test name, Filename and Dir with `_%d` added',
 'C12-G': 'one execution per sequence: the same sequence is executed a second time through the same Config',
 'C12-H': 'Configs of one case always had equal options: every ordered pair of different option sets built in one process added (in directories no earlier case touched — a process-wide memo keyed by the options is otherwise already warm)',
 'C13-H': 'NO_COLOR mode was entered by setting the package variable only: the environment values "", 1, 0, false, true, " " are now decided in fresh processes',
 'C14-H': 'needs two calls overlapping between encode and format: free-running -race pass with Go values through one Config added (C14 and C18)',
 'C15-G': 'placeholders had quotes, newlines and accents but no control characters: ESC, NUL, DEL, VT/FF/BS, a non-printable astral rune and a cut-off UTF-8 sequence added (JSON)',
 'C16-H': 'YAML inputs were single documents: a two-document stream of the same shape added',
 'C17-G': 'failing matchers never carried ErrOnMissingPath(false): the option is now applied to every failing atom on an existing path',
 'C18-G': 'the YAML file was only read/written by the call paths (caught by C10): entries swapped on disk, Clean with sorting, stored text and replay checked again',
 'C18-H': 'no Go value with []byte and no YAML matcher among the interposed calls: both added',
 'C19-H': 'needs a working directory that is not the test file\'s (caught by C11): shard processes now run in a directory six levels deep, so a path relative to the test file resolved against it lands elsewhere',
 'C20-H': 'names of stale items had no `%`: stale id and stale file now carry format verbs',
 # round 5
 'C01-I': 'no update inside the process that replays: every value is now replaced by one of the same formatted length under Update(true) and the new values are replayed in the same process (a reader that trusts the file size sees no change)',
 'C01-J': 'needs two tests appending entries above 4 KiB at the same time; C01 is sequential by construction — caught by C06 (the `-big` kinds under every schedule), not by C01',
 'C02-J': 'the stored text of a JSON entry always came from the same format options as the call: recorded under other Indent / SortKeys / Width, matched under the defaults added',
 'C03-J': 'no file above one read buffer with many slots: 90 slots of two tests in a 160 KB file, one early slot grown under update, everything replayed',
 'C04-J': 'standalone value pairs had no pair differing only in the final newline: a\\n/a, \\n/"", a\\n\\n/a\\n, trailing blank and trailing CR added',
 'C05-I': 'directories were observed but no case had an EMPTY snapshot directory addressed by calls that may not create: added (nested too), in every mode',
 'C07-I': 'all pre-existing files were well formed: an addressed file that is examined first and whose last entry lost its terminator added (C07 and C10)',
 'C08-J': 'every skipped subtest had a parent that also made calls into the file: program P6 (files owned by subtests only) added',
 'C09-I': 'directory names had dots but no glob metacharacter: `pkg[1]` with a sibling `pkg1` added',
 'C09-J': 'no stale file equal to an addressed file up to letter case: F.snap / testa_1.snap added',
 'C10-J': 'numbers in ids had at most two digits: a ten-digit run next to a two-digit one added',
 'C06-J': 'concurrent tests had names without a prefix relation (TestT0, TestT1): now TestT, TestT1, TestT10 (C03 caught the sibling change C03-I at first run)',
 'C11-I': 'GOFLAGS of the test binary was unset or exactly -trimpath: `-trimpath=false` / `-trimpath=0` with a foreign working directory added',
 'C11-J': 'Dir was unset or non-empty: the option given with the empty string added',
 'C12-I': 'every Config had its own option values: one `snaps.JSON(...)` value shared by the Configs of a case, one of them with a second JSON option, added',
 'C12-J': 'the second Config of a pair was used without the first having been used: a call through the first Config before the call through the second added',
 'C15-I': 'the multi-path Any used a placeholder that needs no escaping: one with quote, backslash, tab and a non-ASCII letter added',
 'C16-I': 'no key starting with `$`: document with $id/id, $ref, $oid added (JSON paths only)',
 'C16-J': 'variants never EQUALLED what the matcher writes, and never respelled a number: `\\u003ccustom\\u003e`, `\\u003cAny value\\u003e`, 42.0, 4.2e1 added as variants',
 'C17-I': 'paths of one matcher never overlapped: Any("c", "c.d") added (caught by C15 at first run)',
 'C17-J': 'YAML scalars were plain: `!!str 10`, `&an 4`, `*an` added with wrong-type Type and a rejecting Custom',
 'C18-I': 'map keys of the Go values were pairwise different under natural ordering: keys equal up to leading zeros added (21 marshallings, fresh processes)',
 # round 7
 'C01-M': 'needs two parallel lookups in a file above 64 KiB; C01 is sequential — caught by C06 (free-running -race pass over an 88 KB shared file), not by C01',
 'C01-N': 'needs an update racing with another test shrinking an earlier entry; C01 is sequential — C06 got `update-shrink` scenarios (an update that removes lines) and catches it, C01 does not claim it',
 'C02-M': 'texts differing only in how often a line repeats stopped at runs of 5: runs of 1..12 equal lines against 1 or 2 more, alone and between other lines, added (C02 and C13)',
 'C02-N': 'the recorded file was always exactly what the library wrote: the same file without its final newline, and with CR LF line ends, added before the mismatching replay',
 'C03-N': 'pre-existing files always ended in a newline: a file with the final newline trimmed added (last entry looked up, updated, left alone)',
 'C04-N': 'JSON update pairs always differed as values: pairs that are different texts but the same float64 / Go value added (1234567890123456789 vs …88, 0.1 vs 0.1000000000000000000001, 1.0 vs 1)',
 'C05-M': 'stored values of the mode cells were plain words: a stored value made of header-looking and near-terminator lines added',
 'C05-N': 'the UPDATE_SNAPS matrix had lenient spellings of true/clean but no other word a maintainer might give a meaning to: `always`, `force` added',
 'C06-M': 'the shared file always existed before the threads started: scenarios in which every thread creates and the file does not exist yet added',
 'C06-N': 'the -race pass shared Configs without a JSON option: one Config with every option (JSON format among them) shared by six tests calling the JSON/YAML entry points added',
 'C08-N': 'subtests owning standalone files under a skipped ancestor had word-character names: `en-GB`, `v1.2=x` added',
 'C09-N': 'live values had header look-alikes but no indented / blank-padded terminator look-alike: `  ---`, `--- `, tab + `---` added to them',
 'C10-M': 'no body with CR LF line ends (excluded as the documented limitation): added, with every comparison made modulo the CR that the reader drops anyway',
 'C11-N': 'test names had `%`, `.`, `_%d` but none of `: ? | * < >`: one added (C19 caught the same change)',
 'C12-M': 'option sets never differed in letter case only: Filename("CUST") next to "cust", Ext(".TXT") next to ".txt"; both calls of a pair are now made by the same test, and the addressed slot is compared when the two Configs address different files',
 'C13-N': 'the 210-line texts had a popular line at regular positions from the start: a record-shaped text (header line, then 99/100/130 × two lines, the second one popular) added',
 'C14-M': 'no top-level string whose content is itself JSON: "123", "true", "null", "[]", "{\\"b\\":1}" added',
 'C14-N': 'C14 only replayed the SAME document in other presentations: a different document that decodes to the same float64 must fail against it (C02 caught the change at first run through 1.0 / 1)',
 'C15-M': 'matcher lists held distinct instances: the same Custom instance three times between two occurrences of one Any instance, with a counting callback, added',
 'C15-N': 'Type was always instantiated with a concrete type: Type[any] added (placeholder names the value\'s own type, `<nil>` only for null)',
 'C16-M': 'variants of a masked string never looked like a placeholder: "<Any value>", "<Type:string>", "<Type:float64>" added as variants',
 'C16-N': 'unmasked variants changed whole scalars: pairs differing only in blanks/tabs ending a line of a block scalar, or in a blank line inside it, added (must not pass against each other)',
 'C17-M': 'paths of one YAML Any never extended each other textually: Any("$.b", "$.b_total") with the second one missing added',
 'C17-N': 'a malformed path was always alone in its matcher: Type over a malformed, a missing and a wrong-typed path added (all three named)',
 'C18-N': 'after an invalid document nothing else was done: the next call must be stored as slot 2',
 'C20-M': 'values of the histories were plain words: values with header-looking lines (one of them equal to the stale id) added',
 'C20-N': 'stale items lived in addressed files or in wholly stale files: an unaddressed file holding one entry of a test that called Skip and one stale entry added',
 # round 8 (half round: ten properties)
 'C02-O': 'pairs with an invisible character on one side had another invisible character (or nothing) on the other: the same text with the character spelled out (Go/JSON escapes, caret, percent, entity notation) added — C13 caught the change at first run through its report oracle',
 'C02-P': 'a history, not a pair: the process looks the slot up, the file is then replaced from outside by one of the same size and modification time: file mode `file-swapped` added',
 'C03-O': 'values had one terminator line, or two separated by text: runs of two and three `---` lines followed by the header of another slot added (C03 shadow family, and C01 bodies of 3..5 lines over {---, a, [TestA - 2]})',
 'C03-P': 'pre-existing files had LF line ends: a CR LF file with twenty-odd lines in front of a slot that is updated by a value of the same length (and a shorter, a longer one) added',
 'C05-O': 'Clean cells made their preparatory calls without options: the same cells with Update(true) / Update(false) on those calls added (the option governs its call, never Clean)',
 'C05-P': 'the snapshot directory always existed: cells whose (nested) directory does not exist added — a call that may not create leaves no directory and makes no mutating file-system call',
 'C07-O': 'matched values were never empty: the empty value, a single empty line and a blank added (multi-entry and standalone)',
 'C09-O': 'stale ids were ids the library could have written: `X - 0`, `TestA - 02`, `TestA/old - 00` and an occurrence that overflows int added; the model now compares ids as text',
 'C12-O': 'every JSON option set an indent: JSON(JSONConfig{SortKeys: true}) (zero-value Indent) added to the sequence and pair cases',
 'C12-P': 'option VALUES were shared for JSON only: one Filename option value ("api.snap.json") shared by Configs built with and without Ext(".json"), in both argument orders, added',
 'C14-O': 'documents had no per cent sign: "50%", "%s items", "100%% %d%v" and a key `a%b` added',
 'C16-P': 'masked paths named one place: `items.#.id` over lists whose first / middle / last element lacks the key added (C16 pairs, C15 kinds wildany / wildcustom)',
 'C17-O': 'missing paths were plain keys: Custom("nolist.#.id") and Any("b.#.id") (b a string) added as one atom',
 'C17-P': 'wrong-type atoms mixed scalars with scalars or composites: Type[[]any] on a mapping and Type[map[string]any] on a list added (JSON and YAML)',
 'C20-O': 'stale entries were at the end of small files: three stale entries in FRONT of the file followed by 9 KB of lines added (the summary must still name them)',
 # round 6
 'C01-K': 'the multi-entry drivers had test names with `#`, `/`, digits but none with `%`: TestA/50%_off, TestA/%d_%s (and `[x]`, `a:b*?`) added to C01',
 'C03-K': 'all pre-existing files were well formed: a file whose last entry lost its terminator is looked up first, then the intact slots of other tests must still replay',
 'C03-L': 'a failing call always failed by a diff or a rejected input; a call on a MISSING slot with Update(false) (creation not allowed) added: it consumes its ordinal too',
 'C04-K': 'values with a `/-/-/-/` line were only in the thorough pairs: an unchanged value with that line and a change to it added to quick',
 'C04-L': 'every pre-existing file ended in a newline: the same files with the final newline trimmed added',
 'C05-K': 'the unrelated neighbour entry of the "two entries" cells had no line equal to the addressed id, and the cells were thorough only: now `[TestA - 1]` is a line of the neighbour, in quick',
 'C05-L': 'each cell was the first call of its test: the same cells after two failing calls of the same test (into another file) added',
 'C07-L': 'names with `: ? *` were thorough only: added to quick (standalone shape)',
 'C08-K': 'the generated test files held only real declarations: text that looks like declarations of the other files\' tests added inside a raw string and a block comment',
 'C09-K': 'no Go source next to the snapshot directory: `../stale.go` and `../F.go` (no test function inside) added; without -run they protect nothing',
 'C11-L': 'one call per test: shape "after a rejected MatchStandaloneJSON of the same test" added (C19 catches the same change)',
 'C12-K': 'the JSON option of the pair cases changed indent and key order; one that keeps both defaults and only sets a width added',
 'C14-K': 'white space was varied inside documents only: leading/trailing blanks, CR LF and blank lines around the document added',
 'C15-L': 'a matcher result was compared at once: it is now kept, another matcher is applied to another document, and the kept bytes are compared again',
 'C16-K': 'YAML inputs were rendered from trees (quoted scalars): hand-written pairs with keep-chomping block scalars as last key / last item added',
 'C16-L': 'keys were spelled literally: keys spelled with JSON escapes in the text, masked with ErrOnMissingPath(false), added',
 'C17-L': 'every Type atom had one path: one Type over three paths with the middle one absent added (with a reference that drops only that path)',
 'C19-K': 'update pairs had no pair where the new value is a line-prefix of the old one: a\\nb → a, a\\n → a, a\\nb\\n\\nc → a\\nb added',
 'C19-J': 'test names had `%`, `#`, `/` but none of `: * ? " < > |`: two such names, and pairs of tests whose names differ only there, added',
}
letters = {1:'AB',2:'CD',3:'EF',4:'GH',5:'IJ',6:'KL',7:'MN',8:'OP'}[rnd]
rows=[]; own=anyc=valid=0
for d in sorted(glob.glob('/verif/seeded/C??-['+letters+']')):
    m=json.load(open(d+'/meta.json'))
    sid=m['id']
    ok = m.get('suite_passes_with_change') and m.get('demo_fails_with_change') and m.get('demo_passes_without_change')
    fr=m.get('first_run',{})
    if ok: valid+=1
    if fr.get('own_check_caught'): own+=1
    if any(v=='caught' for v in fr.get('checks',{}).values()): anyc+=1
    first='caught' if fr.get('own_check_caught') else 'missed: '+CAUSE.get(sid,'(see meta.json)')
    summ=m['summary'].replace('\n',' ').replace('|','/')
    rows.append('| %s | %s… | %s | %s |' % (sid, summ[:150], ', '.join(m.get('caught_by',[])) or '—', first))
print('| seed | what it does (short) | caught by (quick tier, after strengthening) | first run |')
print('|---|---|---|---|')
print('\n'.join(rows))
print('\nvalid=%d first_run_own=%d first_run_any=%d total=%d' % (valid, own, anyc, len(rows)), file=sys.stderr)
