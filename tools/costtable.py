#!/usr/bin/env python3
"""Print the measured-cost table (markdown) from evidence directories: quick = /verif/evidence, thorough = argv[1]."""
import json, sys, os
tdir = sys.argv[1] if len(sys.argv) > 1 else '/tmp/ev-thorough'
print('| property | quick: cases / transitions / states / wall | thorough: cases / transitions / states / wall | exhaustive within bounds (q / t) |')
print('|---|---|---|---|')
for i in range(1, 21):
    p = 'C%02d' % i
    cells = []
    ex = []
    for d in ['/verif/evidence', tdir]:
        f = os.path.join(d, p + '.json')
        if not os.path.exists(f):
            cells.append('—'); ex.append('—'); continue
        e = json.load(open(f)); c = e['coverage']
        cells.append('%s / %s / %s / %ss' % (f"{c.get('evaluations',0):,}", f"{c.get('transitions',0):,}", f"{c.get('states',c.get('distinct_states',0)):,}", e['wall_s']))
        ex.append('yes' if c.get('exhaustive') else 'no (%s)' % ','.join(c.get('caps_hit', [])))
    print('| %s | %s | %s | %s / %s |' % (p, cells[0], cells[1], ex[0], ex[1]))
