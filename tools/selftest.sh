#!/bin/bash
# selftest.sh [tier] [seed ids...]: re-run the detection demonstration.
# For every kept seeded change under /verif/seeded/<id>/ the patch is applied in a
# scratch worktree of /repo's HEAD (never in /repo itself), the unedited suite
# is run with it, and the checks recorded in meta.json as catching it are run
# against that worktree (VERIF_REPO). Prints one line per seed; exit 1 if a
# seed is no longer caught. Takes ~10 min for all seeds on 16 cores.
set -u
export GOFLAGS=-mod=mod GOPROXY=off GOSUMDB=off GOTOOLCHAIN=local
TIER=${1:-quick}; shift 2>/dev/null
IDS=${@:-$(ls /verif/seeded)}
FAIL=0
for id in $IDS; do
  D=/verif/seeded/$id
  [ -f "$D/meta.json" ] || continue
  if grep -q '"status": "NOT KEPT' "$D/meta.json"; then echo "$id skipped (not a valid change on HEAD)"; continue; fi
  PROPS=$(python3 -c "import json;print(' '.join(json.load(open('$D/meta.json'))['caught_by']))")
  OUT=$(SKIPDEMO=1 /verif/tools/seedtest.sh "$D" "$TIER" $PROPS 2>&1)
  SUITE=$(echo "$OUT" | grep -o 'suite_ok=[a-z]*')
  MISSED=$(echo "$OUT" | grep '^CHECK' | grep -v 'exit=1' | awk '{print $3}' | tr '\n' ' ')
  CAUGHT=$(echo "$OUT" | grep '^CHECK' | grep 'exit=1' | awk '{print $3}' | tr '\n' ' ')
  if [ -n "$MISSED" ] || [ "$SUITE" != "suite_ok=yes" ] || [ -z "$CAUGHT" ]; then FAIL=1; echo "$id $SUITE caught_by=[$CAUGHT] NOT-CAUGHT-BY=[$MISSED]"; else echo "$id $SUITE caught_by=[$CAUGHT]"; fi
done
exit $FAIL
