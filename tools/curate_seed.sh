#!/bin/bash
# curate_seed.sh <inbox-dir e.g. seeded-inbox/C01/A> <id e.g. C01-A> <tier> <props...>
# Confirms the seeded change on /repo's HEAD in a scratch worktree (suite passes
# with it, demo fails with it, demo passes without it), runs the given checks
# against it, and writes /verif/seeded/<id>/{patch.diff,demo_test.go,meta.json}.
set -u
cd /verif
IN=$1; ID=$2; TIER=$3; shift 3
OUT=/verif/seeded/$ID
LOG=$(tools/seedtest.sh "$IN" "$TIER" "$@" 2>&1)
echo "$LOG" | grep -E "^(CONFIRM|CHECK|RESULT|note)"
mkdir -p "$OUT"
cp "$IN/patch.diff" "$OUT/patch.diff"
[ -f "$IN/demo_test.go" ] && cp "$IN/demo_test.go" "$OUT/demo_test.go"
python3 - "$IN" "$ID" "$OUT" "$TIER" <<PY
import json,sys,re,subprocess
inp,sid,out,tier=sys.argv[1:5]
log='''$(echo "$LOG" | grep -E "^(CONFIRM|CHECK|RESULT|note|  \[1\])" | cut -c1-400 | sed "s/'''/'/g")'''
try: src=json.load(open(inp+'/meta.json'))
except Exception: src={}
confirm=[l for l in log.splitlines() if l.startswith('CONFIRM')]
checks=[l for l in log.splitlines() if l.startswith('CHECK')]
caught=[]; missed=[]
for l in checks:
    m=re.search(r'CHECK \S+ (C\d+) tier=(\w+) exit=(\d+) violations_lines=(\d+)',l)
    if m:
        (caught if m.group(3)=='1' and int(m.group(4))>0 else missed).append(m.group(1))
first=[l.strip() for l in log.splitlines() if l.startswith('  [1]')]
head=subprocess.check_output(['git','-C','/repo','rev-parse','--short','HEAD']).decode().strip()
meta={
 'id':sid,
 'property':src.get('property',sid[:3]),
 'summary':src.get('summary',''),
 'needs':src.get('needs',''),
 'author':'independent sub-agent given only the property text and a scratch worktree',
 'confirmed_on_repo_head':head,
 'confirmation':confirm[0] if confirm else 'not confirmed',
 'suite_passes_with_change':'suite_ok=yes' in (confirm[0] if confirm else ''),
 'demo_fails_with_change':'demo-fails-with-change' in (confirm[0] if confirm else ''),
 'demo_passes_without_change':'demo-passes-without' in (confirm[0] if confirm else ''),
 'checks_run':[l for l in checks],
 'caught_by':caught,
 'not_caught_by':missed,
 'first_violation_reported':first[:2],
 'what_i_ran':'tools/seedtest.sh %s %s <props>: scratch worktree of /repo HEAD, git apply patch, go test ./..., demo with and without the patch, then VERIF_REPO=<worktree> vcheck <prop> --tier %s'%(inp,tier,tier),
 'sub_agent_ran':src.get('ran',[]),
}
json.dump(meta,open(out+'/meta.json','w'),indent=1,ensure_ascii=False)
PY
