#!/usr/bin/env python3
"""Regenerate /verif/MANIFEST.json from the table below and validate it."""
import json, subprocess, sys

GOENV = "GOFLAGS=-mod=mod GOPROXY=off GOSUMDB=off GOTOOLCHAIN=local"

# id -> (engine, category, technique, text, note, design_ref)
CHECKS = {}

def add(pid, engine, category, technique, text, note, ref):
    CHECKS[pid] = dict(engine=engine, category=category, technique=technique, text=text, note=note, ref=ref)

E1 = "E1 seqmc"
E2 = "E2 sched"
E3 = "E3 runner"
NOTE = ("Bounded: only the alphabets/bounds printed in evidence.coverage.bounds are covered. Trusted base: Go toolchain, kernel tmpfs, "
        "the reference model in /verif/inject (documented file format), the overlay import rewriter and shims. "
        "Runs the real code compiled from /repo's working tree at check time; no abstract model, so every explored trace is a trace of the implementation.")

add("C01", E1, "model_checking", "explicit enumeration of record/replay programs over a line-token alphabet against a reference model of the file format, on the real code",
    "Every program (<=2 tests, <=2-3 calls, 12-call ordinal family, mixed APIs, pre-existing entries) over the framing-token alphabet is recorded and replayed on the real code; replay must pass, log nothing, perform no mutating fs operation and leave bytes/inodes/mtimes unchanged; disk parsed structurally must equal the model.",
    NOTE, "§6 C01")
add("C02", E1, "model_checking", "exhaustive enumeration of all ordered (stored, received) pairs over the body alphabet x API x colour x five update-disabled modes",
    "All ordered pairs of distinct values over the alphabet: replay of a different value must signal exactly one failure, perform no mutating fs operation and leave the directory identical; the recorded value still passes afterwards.",
    NOTE, "§6 C02")

add("C03", E1, "model_checking", "explicit-state breadth-first search over Call/End histories with state de-duplication, each transition executed on the real code and compared with a reference model",
    "BFS over histories of Call(test,value,update?)/End(test) for tests whose names are prefixes/children of each other, two files, re-execution after End; after every transition the outcome, the addressed slot and parse(disk) must equal the model's; plus linear families with 10-12 ordinals.",
    NOTE, "§6 C03")
add("C04", E1, "model_checking", "exhaustive enumeration of (old,new) value assignments per file layout and API, update run then read-only run on the real code against the model",
    "Every assignment of value pairs (unchanged/shorter/longer/empty/multi-line/terminator-, template- and header-like) to the entries of each layout, update enabled by env and by option: exactly the changed entries are rewritten to the new values, untouched entries keep their byte spans in place, matching calls perform no write, a read-only run passes without writing.",
    NOTE, "§6 C04")
add("C05", E1 + " (+E3 twin)", "model_checking", "complete enumeration of the finite mode table (360 call cells + 128 Clean cells), UPDATE_SNAPS taken from the real process environment",
    "The whole table CI x Update option x UPDATE_SNAPS x entry point x slot state, and CI x UPDATE_SNAPS x sort x obsolete items x sortedness for Clean, is enumerated (exhaustive: the space is finite); per cell the outcome and created/rewritten/deleted/untouched must equal the model's table.",
    NOTE, "§6 C05")
add("C06", E2, "model_checking", "stateless exploration of every interleaving at lock and file-system operations of the real code under a cooperative scheduler (preemption-bounded, thorough: unbounded with state-key pruning); separate free-running -race pass",
    "2-3 concurrently running tests sharing one snapshot file and shared Configs, every assignment of create/match/mismatch/update/standalone/Skip: every schedule within the bound is executed; each call must get its serial outcome, the final file must hold exactly one well-formed entry per slot, no deadlock, counters equal serial ones. Data-race clause: dynamic -race pass (not exhaustive).",
    NOTE + " Scheduler assumption A1: one write(2) on an O_APPEND descriptor is atomic; unsynchronised memory accesses are only seen by the race pass.", "§6 C06, §5.2")
add("C07", E1, "model_checking", "exhaustive enumeration of two-test programs x call shapes x -count x Clean modes against the model's addressed set, on the real code",
    "Pairs of tests from the name alphabet x 8 call shapes (two files, standalone, failing calls, header-looking values) x -count 1..3 x sort x CI x -run, in each UPDATE_SNAPS process: nothing addressed in this run is listed obsolete, removed or altered by Clean, and a following read-only run still passes.",
    NOTE, "§6 C07")
add("C09", E1, "model_checking", "exhaustive enumeration of directory contents x addressed sets x Clean modes against the model's stale sets, on the real code",
    "Every combination of stale entries/files, unrelated files, sub-directories, directory names and spellings, -count, sort, CI, skip protection in each UPDATE_SNAPS process: the summary lists exactly the stale items, removal happens iff clean mode, everything else is byte/inode/mtime identical.",
    NOTE, "§6 C09")
add("C10", E1, "model_checking", "exhaustive enumeration of entry sets x liveness x bodies with EVERY permutation as initial order, Clean;Clean on the real code",
    "Every subset of an id universe (<=4/5 entries), liveness and body assignment, sort on/off, each UPDATE_SNAPS process; per case every permutation: survivors keep their values, natural order when sorting, order independent of the initial permutation, no write when nothing to do, second Clean is a no-op.",
    NOTE, "§6 C10")
add("C12", E1 + " + " + E2, "model_checking", "exhaustive enumeration of call sequences through one Config (differential against the last call alone) plus every interleaving of concurrent pairs through one Config; free-running -race pass",
    "7 option sets x all 155 sequences of <=3 calls over the five entry points through one Config: the last call must write the same files with the same outcome as alone on an independent Config; defaults unchanged; concurrent pairs through one Config under every schedule within the bound give a serial result.",
    NOTE, "§6 C12")

def main():
    only = None
    try:
        only = json.load(open('/verif/tools/claimed.json'))
    except Exception:
        pass
    checks = []
    for pid in sorted(CHECKS):
        if only is not None and pid not in only:
            continue
        c = CHECKS[pid]
        checks.append({
            "property_id": pid,
            "quick_cmd": f"/verif/bin/vcheck {pid} --tier quick",
            "thorough_cmd": f"/verif/bin/vcheck {pid} --tier thorough",
            "evidence_file": f"/verif/evidence/{pid}.json",
            "replay_cmd_template": f"/verif/bin/vcheck {pid} --replay {{path}}",
            "engine": c["engine"],
            "level_claimed": {"category": c["category"], "text": c["text"], "design_ref": c["ref"]},
            "level_note": c["note"],
            "technique": c["technique"],
        })
    props = [json.loads(l)["id"] for l in open('/verif/properties.jsonl')]
    na = []
    for pid in props:
        if pid not in [c["property_id"] for c in checks]:
            na.append({"property_id": pid, "reason": "check not registered yet (work in progress; see DESIGN.md §6 for the planned model-checking design of this property)"})
    m = {
        "version": 1,
        "setup_cmd": f"cd /verif/vcheck && {GOENV} go build -o /verif/bin/vcheck . && {GOENV} /verif/bin/vcheck warm",
        "hooks": {
            "guard": "verif",
            "enable": "go test -c -tags verif -overlay <json generated per run from /repo's working tree> (white-box drivers injected as zz_verif_*_test.go, os/sync imports of package snaps redirected to shims; nothing committed in /repo)",
            "baseline_off_cmd": f"cd /repo && {GOENV} go test -vet=off -count=1 -timeout 25m ./...",
            "source_commits": [],
            "add_only": True,
        },
        "engines": [
            {"name": E1, "path": "/verif/inject/snaps (drivers), /verif/vcheck (CLI)", "serves_properties": [p for p in sorted(CHECKS) if CHECKS[p]["engine"].startswith("E1")],
             "kind_free_text": "in-process explicit enumeration / explicit-state search over API operation sequences on the real code, reference model in Go stepped in lock-step, passive fs-operation log"},
            {"name": E2, "path": "/verif/shim/sched, /verif/shim/vos, /verif/shim/vsync", "serves_properties": [p for p in sorted(CHECKS) if "E2" in CHECKS[p]["engine"]],
             "kind_free_text": "cooperative scheduler over shimmed lock and file-system operations: every interleaving up to a preemption bound, then unbounded with state-key pruning; separate free-running -race pass"},
            {"name": E3, "path": "/verif/e3", "serves_properties": [p for p in sorted(CHECKS) if "E3" in CHECKS[p]["engine"]],
             "kind_free_text": "real go test binaries of a data-driven scratch module run once per cell of an enumerated (program, -run, -count, env) space"},
        ],
        "checks": checks,
        "not_applicable": na,
        "notes": "All checks: exit 0 held (KNOWN-FINDING lines possible), exit 1 + VIOLATION line, exit 2 harness error. Known findings: /verif/known_findings.json.",
    }
    json.dump(m, open('/verif/MANIFEST.json', 'w'), indent=1)
    r = subprocess.run(["/opt/veriftools/pyvenv/bin/python", "-c",
        "import json,jsonschema;jsonschema.validate(json.load(open('/verif/MANIFEST.json')),json.load(open('/root/.vp/MANIFEST.schema.json')));print('MANIFEST valid,',len(json.load(open('/verif/MANIFEST.json'))['checks']),'checks')"])
    sys.exit(r.returncode)

if __name__ == "__main__":
    main()
