#!/usr/bin/env python3
"""Regenerate /verif/MANIFEST.json from the table below and validate it."""
import json, subprocess, sys

GOENV = "GOFLAGS=-mod=mod GOPROXY=off GOSUMDB=off GOTOOLCHAIN=local"

# id -> (engine, category, technique, text, note, design_ref)
CHECKS = {}

def add(pid, engine, category, technique, text, note, ref):
    CHECKS[pid] = dict(engine=engine, category=category, technique=technique, text=text, note=note, ref=ref)

E1 = "E1 seqmc"
E2 = "E2 sched"
E3 = "E3 runner"
NOTE = ("Bounded: only the alphabets/bounds printed in evidence.coverage.bounds are covered. Trusted base: Go toolchain, kernel tmpfs, "
        "the reference model in /verif/inject (documented file format), the overlay import rewriter and shims. "
        "Runs the real code compiled from /repo's working tree at check time; no abstract model, so every explored trace is a trace of the implementation.")

add("C01", E1, "model_checking", "explicit enumeration of record/replay programs over a line-token alphabet against a reference model of the file format, on the real code; each program is also executed twice more in the same process, after a same-length update, against permuted files, and (interposed-calls pass) with unrelated calls of another test before every call",
    "Every program (<=2 tests, <=2-3 calls, 12-call ordinal family, mixed APIs, pre-existing entries) over the framing-token alphabet is recorded and replayed on the real code; replay must pass, log nothing, perform no mutating fs operation and leave bytes/inodes/mtimes unchanged; disk parsed structurally must equal the model.",
    NOTE, "§6 C01")
add("C02", E1, "model_checking", "exhaustive enumeration of all ordered (stored, received) pairs over the body alphabet x API x colour x five update-disabled modes; pairs recorded under other JSON format options; control-sequence pairs; interposed-calls pass",
    "All ordered pairs of distinct values over the alphabet: replay of a different value must signal exactly one failure, perform no mutating fs operation and leave the directory identical; the recorded value still passes afterwards.",
    NOTE, "§6 C02")

add("C03", E1, "model_checking", "explicit-state breadth-first search over Call/End histories with state de-duplication, each transition executed on the real code and compared with a reference model; linear families incl. pre-existing files without final newline / with CR LF line ends / truncated, rejected calls, calls made from t.Cleanup",
    "BFS over histories of Call(test,value,update?)/End(test) for tests whose names are prefixes/children of each other, two files, re-execution after End; after every transition the outcome, the addressed slot and parse(disk) must equal the model's; plus linear families with 10-12 ordinals.",
    NOTE, "§6 C03")
add("C04", E1, "model_checking", "exhaustive enumeration of (old,new) value assignments per file layout and API, update run then read-only run on the real code against the model, also on files without final newline and with CR LF line ends; interposed-calls pass",
    "Every assignment of value pairs (unchanged/shorter/longer/empty/multi-line/terminator-, template- and header-like) to the entries of each layout, update enabled by env and by option: exactly the changed entries are rewritten to the new values, untouched entries keep their byte spans in place, matching calls perform no write, a read-only run passes without writing.",
    NOTE, "§6 C04")
add("C05", E1 + " (+E3 twin)", "model_checking", "complete enumeration of the finite mode table (360 call cells + 128 Clean cells), UPDATE_SNAPS taken from the real process environment",
    "The whole table CI x Update option x UPDATE_SNAPS x entry point x slot state, and CI x UPDATE_SNAPS x sort x obsolete items x sortedness for Clean, is enumerated (exhaustive: the space is finite); per cell the outcome and created/rewritten/deleted/untouched must equal the model's table.",
    NOTE, "§6 C05")
add("C06", E2, "model_checking", "stateless exploration of every interleaving at lock and file-system operations of the real code under a cooperative scheduler (preemption-bounded, thorough: unbounded with state-key pruning); separate free-running -race pass",
    "2-3 concurrently running tests sharing one snapshot file and shared Configs, every assignment of create/match/mismatch/update/standalone/Skip: every schedule within the bound is executed; each call must get its serial outcome, the final file must hold exactly one well-formed entry per slot, no deadlock, counters equal serial ones. Data-race clause: dynamic -race pass (not exhaustive).",
    NOTE + " Scheduler assumption A1: one write(2) on an O_APPEND descriptor is atomic; unsynchronised memory accesses are only seen by the race pass.", "§6 C06, §5.2")
add("C07", E1, "model_checking", "exhaustive enumeration of two-test programs x call shapes x -count x Clean modes against the model's addressed set, on the real code (every fourth scenario on CR LF files)",
    "Pairs of tests from the name alphabet x 8 call shapes (two files, standalone, failing calls, header-looking values) x -count 1..3 x sort x CI x -run, in each UPDATE_SNAPS process: nothing addressed in this run is listed obsolete, removed or altered by Clean, and a following read-only run still passes.",
    NOTE, "§6 C07")
add("C09", E1, "model_checking", "exhaustive enumeration of directory contents x addressed sets x Clean modes against the model's stale sets, on the real code (every fifth scenario on CR LF files; stale ids incl. spellings the library never writes)",
    "Every combination of stale entries/files, unrelated files, sub-directories, directory names and spellings, -count, sort, CI, skip protection in each UPDATE_SNAPS process: the summary lists exactly the stale items, removal happens iff clean mode, everything else is byte/inode/mtime identical.",
    NOTE, "§6 C09")
add("C10", E1, "model_checking", "exhaustive enumeration of entry sets x liveness x bodies with EVERY permutation as initial order (every third one as a CR LF file), Clean;Clean on the real code",
    "Every subset of an id universe (<=4/5 entries), liveness and body assignment, sort on/off, each UPDATE_SNAPS process; per case every permutation: survivors keep their values, natural order when sorting, order independent of the initial permutation, no write when nothing to do, second Clean is a no-op.",
    NOTE, "§6 C10")
add("C12", E1 + " + " + E2, "model_checking", "exhaustive enumeration of call sequences through one Config (differential against the last call alone, second execution, pairs of Configs with different option sets) plus every interleaving of concurrent pairs through one Config; free-running -race pass",
    "7 option sets x all 155 sequences of <=3 calls over the five entry points through one Config: the last call must write the same files with the same outcome as alone on an independent Config; defaults unchanged; concurrent pairs through one Config under every schedule within the bound give a serial result.",
    NOTE, "§6 C12")

add("C08", E3, "model_checking", "exhaustive enumeration of programs x skip sets x -run patterns x Clean modes, each cell one run of the REAL go test binary of a data-driven module; oracle = trace of what the runner executed",
    "4 programs x every set of <=2 of 8 tests calling snaps.Skip/Skipf/SkipNow x 25 -run patterns x {report, clean} x sort: every entry/file of a test whose calls did not run (filtered by the real matcher or skipped) must survive Clean unchanged and unlisted; name-prefix siblings of skipped tests stay reportable.",
    NOTE + " The real testing package schedules the tests; E3 does not control interleavings.", "§6 C08, §5.3")
add("C11", E3, "model_checking", "exhaustive enumeration of option x API x call-shape combinations inside real test binaries, one run per (package depth, build mode, cwd, GOROOT, GOFLAGS); every combination executed twice (create, then update)",
    "Dir x Filename (incl. one with a slash) x Ext x 5 APIs x 10 call shapes (direct, closure, helpers in same/other test file, non-test file, other package, 40/70-frame recursion, subtest, goroutine) x depth x {plain, -trimpath flag, -trimpath GOFLAGS} x cwd x GOROOT: each creating call must create exactly one file at the reference location.",
    NOTE, "§6 C11, §5.3")
add("C13", E1, "exploration", "exhaustive enumeration of text pairs (all line sequences over small alphabets up to a length bound, long-text edit families) checked on difflib's edit script and on the NO_COLOR report; NO_COLOR environment values decided in fresh processes",
    "All ordered pairs of line sequences over {a,b,c} up to length 4/5, over blank/diff-markup/invalid-UTF-8 alphabets, long texts with single and double edits: report empty iff texts byte-identical; header counts = body lines; '-'/'+' lines belong to stored/received; multiset identity; opcodes tile, equal ranges identical, replay yields the second text, hunks omit no change. Depth-1 exploration, exhaustive within the bounds.",
    NOTE, "§6 C13")
add("C14", E1, "exploration", "exhaustive enumeration of a bounded JSON document grammar x presentations x input forms x format options; invalid inputs by prefix/corruption enumeration against encoding/json; interposed-calls pass; free-running -race pass with Go values",
    "Every document of the grammar x 4 whitespace styles x 3 member orders x {string, []byte}, the forms of its standard encoding (Go value, RawMessage, pointer, struct), 24 option sets: identical stored text, same decoded value, valid standalone JSON, no framing-like line; inputs encoding/json rejects fail once, write nothing, keep later slots.",
    NOTE, "§6 C14")
add("C15", E1, "exploration", "exhaustive enumeration of documents x EVERY member/element path x placeholders x matcher kinds with ordered-tree comparison against a reference replacement",
    "JSON (C14 grammar) and YAML documents x every path (with escapes) x 31 placeholders (incl. strings YAML could misread) x {Any, Type, Custom} x {matcher method, Match* API with string/[]byte}; multi-path matchers and matcher pairs left to right: result valid and equal to the input tree with exactly that node replaced; caller's []byte untouched.",
    NOTE, "§6 C15")
add("C16", E1, "model_checking", "exhaustive enumeration of documents x masked path sets x matcher kinds x value variants; record(A); replay(A') on the real code; interposed-calls pass",
    "Documents x every set of <=2 masked paths x {Any, Type, Custom, one reused matcher value} x {MatchJSON, MatchStandaloneJSON, MatchYAML flow/block}: variants differing only under the mask store identical bytes and pass both ways; variants differing at any unmasked leaf (incl. numbers equal as float64 but different as text) fail once and modify nothing.",
    NOTE, "§6 C16")
add("C17", E1, "model_checking", "exhaustive enumeration of matcher lists over 10 atom kinds x ErrOnMissingPath x mode x slot state x API on the real code; interposed-calls pass",
    "Every list of <=2/3 matcher atoms (satisfied, missing path via Any/Type/Custom on one shared path, wrong Type, failing Custom, unparsable YAML path) x ErrOnMissingPath x {create, UPDATE_SNAPS=true, Update(true), CI} x slot x 3 APIs: one failure naming every failing matcher/path and no satisfied one, no write, next call keeps slot 2; with ErrOnMissingPath(false) same result as without the missing-path matchers.",
    NOTE, "§6 C17")
add("C18", E1, "model_checking", "exhaustive enumeration of YAML texts over a line alphabet (<=3/4 lines) x endings x input forms; record; replay on the real code, also after Clean re-sorted the file; Go values across processes and after unrelated calls; interposed-calls pass; free-running -race pass",
    "Every text of <=3/4 lines over 14 YAML line tokens x 4 endings x {string, []byte}: valid ones are stored verbatim (unframe(unescape(body)) == input), replay passes without writing; invalid ones fail once and write nothing; Go values marshal to identical text 21x in-process and in 3 fresh processes.",
    NOTE + " Validity oracle is the YAML library go-snaps uses.", "§6 C18")
add("C19", E1, "model_checking", "exhaustive enumeration of byte-string values (token sequences incl. CR) x call counts x executions x names x options; record/replay/update on the real code; interposed-calls pass",
    "All byte strings of <=2/3 tokens, Go values, JSON documents; 1..3 standalone calls x 1..3 executions x nested/percent/#01 names x Filename/Ext: file k holds exactly the formatted value of call k, MatchStandaloneJSON files are valid JSON, replay passes, update replaces the file wholesale.",
    NOTE, "§6 C19")
add("C20", E1 + " + " + E2, "model_checking", "exhaustive enumeration of operation histories over 16 op kinds followed by Clean, and the same operations from 2-3 threads under every schedule within the preemption bound; one injected file-system fault per call at every position (deviation bound 1); free-running -race pass",
    "Every history of <=2/3 ops (each API x pass/added/updated/failed by mismatch, invalid input, matcher error; Skip/Skipf/SkipNow/child skip) plus length-6 windows, then Clean with 0..2 obsolete items x sort x CI per UPDATE_SNAPS process: exactly one signal per call, summary totals and obsolete lists equal the model's; concurrent histories under every schedule.",
    NOTE, "§6 C20")

def main():
    only = None
    try:
        only = json.load(open('/verif/tools/claimed.json'))
    except Exception:
        pass
    checks = []
    for pid in sorted(CHECKS):
        if only is not None and pid not in only:
            continue
        c = CHECKS[pid]
        checks.append({
            "property_id": pid,
            "quick_cmd": f"/verif/bin/vcheck {pid} --tier quick",
            "thorough_cmd": f"/verif/bin/vcheck {pid} --tier thorough",
            "evidence_file": f"/verif/evidence/{pid}.json",
            "replay_cmd_template": f"/verif/bin/vcheck {pid} --replay {{path}}",
            "engine": c["engine"],
            "level_claimed": {"category": c["category"], "text": c["text"], "design_ref": c["ref"]},
            "level_note": c["note"],
            "technique": c["technique"],
        })
    props = [json.loads(l)["id"] for l in open('/verif/properties.jsonl')]
    na = []
    for pid in props:
        if pid not in [c["property_id"] for c in checks]:
            na.append({"property_id": pid, "reason": "check not registered yet (work in progress; see DESIGN.md §6 for the planned model-checking design of this property)"})
    m = {
        "version": 1,
        "setup_cmd": f"cd /verif/vcheck && {GOENV} go build -o /verif/bin/vcheck . && {GOENV} /verif/bin/vcheck warm",
        "hooks": {
            "guard": "verif",
            "enable": "go test -c -tags verif -overlay <json generated per run from /repo's working tree> (white-box drivers injected as zz_verif_*_test.go plus one non-test helper zz_verif_helper.go, os/sync imports of package snaps redirected to shims; nothing committed in /repo)",
            "baseline_off_cmd": f"cd /repo && {GOENV} go test -vet=off -count=1 -timeout 25m ./...",
            "source_commits": [],
            "add_only": True,
        },
        "engines": [
            {"name": E1, "path": "/verif/inject/snaps (drivers), /verif/vcheck (CLI)", "serves_properties": [p for p in sorted(CHECKS) if CHECKS[p]["engine"].startswith("E1")],
             "kind_free_text": "in-process explicit enumeration / explicit-state search over API operation sequences on the real code, reference model in Go stepped in lock-step, passive fs-operation log"},
            {"name": E2, "path": "/verif/shim/sched, /verif/shim/vos, /verif/shim/vsync", "serves_properties": [p for p in sorted(CHECKS) if "E2" in CHECKS[p]["engine"]],
             "kind_free_text": "cooperative scheduler over shimmed lock and file-system operations: every interleaving up to a preemption bound, then unbounded with state-key pruning; separate free-running -race pass"},
            {"name": E3, "path": "/verif/e3", "serves_properties": [p for p in sorted(CHECKS) if "E3" in CHECKS[p]["engine"]],
             "kind_free_text": "real go test binaries of a data-driven scratch module run once per cell of an enumerated (program, -run, -count, env) space"},
        ],
        "checks": checks,
        "not_applicable": na,
        "notes": "All checks: exit 0 held (KNOWN-FINDING lines possible), exit 1 + VIOLATION line, exit 2 harness error. Known findings: /verif/known_findings.json.",
    }
    json.dump(m, open('/verif/MANIFEST.json', 'w'), indent=1)
    r = subprocess.run(["/opt/veriftools/pyvenv/bin/python", "-c",
        "import json,jsonschema;jsonschema.validate(json.load(open('/verif/MANIFEST.json')),json.load(open('/root/.vp/MANIFEST.schema.json')));print('MANIFEST valid,',len(json.load(open('/verif/MANIFEST.json'))['checks']),'checks')"])
    sys.exit(r.returncode)

if __name__ == "__main__":
    main()
