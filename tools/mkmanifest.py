#!/usr/bin/env python3
"""Regenerate /verif/MANIFEST.json from the table below and validate it."""
import json, subprocess, sys

GOENV = "GOFLAGS=-mod=mod GOPROXY=off GOSUMDB=off GOTOOLCHAIN=local"

# id -> (engine, category, technique, text, note, design_ref)
CHECKS = {}

def add(pid, engine, category, technique, text, note, ref):
    CHECKS[pid] = dict(engine=engine, category=category, technique=technique, text=text, note=note, ref=ref)

E1 = "E1 seqmc"
E2 = "E2 sched"
E3 = "E3 runner"
NOTE = ("Bounded: only the alphabets/bounds printed in evidence.coverage.bounds are covered. Trusted base: Go toolchain, kernel tmpfs, "
        "the reference model in /verif/inject (documented file format), the overlay import rewriter and shims. "
        "Runs the real code compiled from /repo's working tree at check time; no abstract model, so every explored trace is a trace of the implementation.")

add("C01", E1, "model_checking", "explicit enumeration of record/replay programs over a line-token alphabet against a reference model of the file format, on the real code",
    "Every program (<=2 tests, <=2-3 calls, 12-call ordinal family, mixed APIs, pre-existing entries) over the framing-token alphabet is recorded and replayed on the real code; replay must pass, log nothing, perform no mutating fs operation and leave bytes/inodes/mtimes unchanged; disk parsed structurally must equal the model.",
    NOTE, "§6 C01")
add("C02", E1, "model_checking", "exhaustive enumeration of all ordered (stored, received) pairs over the body alphabet x API x colour x five update-disabled modes",
    "All ordered pairs of distinct values over the alphabet: replay of a different value must signal exactly one failure, perform no mutating fs operation and leave the directory identical; the recorded value still passes afterwards.",
    NOTE, "§6 C02")

def main():
    only = None
    try:
        only = json.load(open('/verif/tools/claimed.json'))
    except Exception:
        pass
    checks = []
    for pid in sorted(CHECKS):
        if only is not None and pid not in only:
            continue
        c = CHECKS[pid]
        checks.append({
            "property_id": pid,
            "quick_cmd": f"/verif/bin/vcheck {pid} --tier quick",
            "thorough_cmd": f"/verif/bin/vcheck {pid} --tier thorough",
            "evidence_file": f"/verif/evidence/{pid}.json",
            "replay_cmd_template": f"/verif/bin/vcheck {pid} --replay {{path}}",
            "engine": c["engine"],
            "level_claimed": {"category": c["category"], "text": c["text"], "design_ref": c["ref"]},
            "level_note": c["note"],
            "technique": c["technique"],
        })
    props = [json.loads(l)["id"] for l in open('/verif/properties.jsonl')]
    na = []
    for pid in props:
        if pid not in [c["property_id"] for c in checks]:
            na.append({"property_id": pid, "reason": "check not registered yet (work in progress; see DESIGN.md §6 for the planned model-checking design of this property)"})
    m = {
        "version": 1,
        "setup_cmd": f"cd /verif/vcheck && {GOENV} go build -o /verif/bin/vcheck . && {GOENV} /verif/bin/vcheck warm",
        "hooks": {
            "guard": "verif",
            "enable": "go test -c -tags verif -overlay <json generated per run from /repo's working tree> (white-box drivers injected as zz_verif_*_test.go, os/sync imports of package snaps redirected to shims; nothing committed in /repo)",
            "baseline_off_cmd": f"cd /repo && {GOENV} go test -vet=off -count=1 -timeout 25m ./...",
            "source_commits": [],
            "add_only": True,
        },
        "engines": [
            {"name": E1, "path": "/verif/inject/snaps (drivers), /verif/vcheck (CLI)", "serves_properties": [p for p in sorted(CHECKS) if CHECKS[p]["engine"].startswith("E1")],
             "kind_free_text": "in-process explicit enumeration / explicit-state search over API operation sequences on the real code, reference model in Go stepped in lock-step, passive fs-operation log"},
            {"name": E2, "path": "/verif/shim/sched, /verif/shim/vos, /verif/shim/vsync", "serves_properties": [p for p in sorted(CHECKS) if "E2" in CHECKS[p]["engine"]],
             "kind_free_text": "cooperative scheduler over shimmed lock and file-system operations: every interleaving up to a preemption bound, then unbounded with state-key pruning; separate free-running -race pass"},
            {"name": E3, "path": "/verif/e3", "serves_properties": [p for p in sorted(CHECKS) if "E3" in CHECKS[p]["engine"]],
             "kind_free_text": "real go test binaries of a data-driven scratch module run once per cell of an enumerated (program, -run, -count, env) space"},
        ],
        "checks": checks,
        "not_applicable": na,
        "notes": "All checks: exit 0 held (KNOWN-FINDING lines possible), exit 1 + VIOLATION line, exit 2 harness error. Known findings: /verif/known_findings.json.",
    }
    json.dump(m, open('/verif/MANIFEST.json', 'w'), indent=1)
    r = subprocess.run(["/opt/veriftools/pyvenv/bin/python", "-c",
        "import json,jsonschema;jsonschema.validate(json.load(open('/verif/MANIFEST.json')),json.load(open('/root/.vp/MANIFEST.schema.json')));print('MANIFEST valid,',len(json.load(open('/verif/MANIFEST.json'))['checks']),'checks')"])
    sys.exit(r.returncode)

if __name__ == "__main__":
    main()
