#!/bin/sh
# validate every evidence file against the schema
/opt/veriftools/pyvenv/bin/python - <<'PY'
import json,jsonschema,glob,sys
s=json.load(open('/root/.vp/EVIDENCE.schema.json'))
bad=0
for f in sorted(glob.glob('/verif/evidence/*.json')):
    try:
        jsonschema.validate(json.load(open(f)),s); print('ok',f)
    except Exception as e:
        bad=1; print('INVALID',f,str(e)[:300])
sys.exit(bad)
PY
