#!/bin/bash
# selftest_own.sh [tier] [parallel]: like selftest.sh, but every seeded change is only run against the check of its OWN
# property (or, where that check does not claim it — meta.json — against the first check that catches it), P seeds at a time.
# Prints one line per seed; exit 1 if a seed is no longer caught.
set -u
export GOFLAGS=-mod=mod GOPROXY=off GOSUMDB=off GOTOOLCHAIN=local
TIER=${1:-quick}; P=${2:-3}
one() {
  id=$1; TIER=$2
  D=/verif/seeded/$id
  [ -f "$D/meta.json" ] || exit 0
  if grep -q '"status": "NOT KEPT' "$D/meta.json"; then echo "$id skipped (not a valid change on HEAD)"; exit 0; fi
  PROP=$(python3 -c "
import json
m=json.load(open('$D/meta.json'))
cb=m.get('caught_by',[])
print(m['property'] if m['property'] in cb else (cb[0] if cb else ''))")
  [ -z "$PROP" ] && { echo "$id skipped (no check recorded as catching it)"; exit 0; }
  OUT=$(SKIPDEMO=1 /verif/tools/seedtest.sh "$D" "$TIER" $PROP 2>&1)
  if echo "$OUT" | grep '^CHECK' | grep -q 'exit=1'; then echo "$id caught_by=$PROP"; else echo "$id NOT-CAUGHT-BY=$PROP $(echo "$OUT" | grep -o 'suite_ok=[a-z]*')"; fi
}
export -f one
ls /verif/seeded | grep -E '^C[0-9]{2}-[A-Z]$' | xargs -P "$P" -I{} bash -c "one {} $TIER" | tee /tmp/selftest_own.out
! grep -q NOT-CAUGHT /tmp/selftest_own.out
