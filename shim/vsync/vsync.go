// Package vsync replaces sync.Mutex / sync.RWMutex of package snaps. Passive
// mode delegates to the real primitives; active mode models the lock state so
// that the cooperative scheduler knows which logical threads are enabled.
// Zero values are usable and the types can be embedded by value, like the
// originals. Other identifiers of package sync are redirected to the real
// package by the import rewriter.
package vsync

import (
	"sync"

	"github.com/gkampitakis/go-snaps/internal/verifhook/sched"
)

type Locker = sync.Locker

// Modelled lock state must not leak from one explored execution into the next
// (package-level locks such as snaps._m outlive an execution, and an abandoned
// execution can be cut while a thread waits for or holds a lock): every lock
// used in active mode registers itself and is reset when the next execution
// starts.
var (
	regMu   sync.Mutex
	used    []func()
	usedSet = map[any]bool{}
)

func register(key any, reset func()) {
	regMu.Lock()
	if !usedSet[key] {
		usedSet[key] = true
		used = append(used, reset)
	}
	regMu.Unlock()
}

func init() {
	sched.OnRunStart = func() {
		regMu.Lock()
		for _, r := range used {
			r()
		}
		used = nil
		usedSet = map[any]bool{}
		regMu.Unlock()
	}
}

type Mutex struct {
	m    sync.Mutex
	held bool
}

func (m *Mutex) Lock() {
	if !sched.Active() {
		m.m.Lock()
		return
	}
	register(m, func() { m.held = false })
	sched.Point("lock", "", false)
	sched.Block(func() bool { return m.held })
	m.held = true
}

func (m *Mutex) TryLock() bool {
	if !sched.Active() {
		return m.m.TryLock()
	}
	sched.Point("trylock", "", false)
	if m.held {
		return false
	}
	m.held = true
	return true
}

func (m *Mutex) Unlock() {
	if !sched.Active() {
		m.m.Unlock()
		return
	}
	sched.Point("unlock", "", false)
	if !m.held {
		panic("vsync: unlock of unlocked mutex")
	}
	m.held = false
}

type RWMutex struct {
	m       sync.RWMutex
	w       bool
	readers int
	wwait   int // writers waiting: new readers queue behind them, like sync.RWMutex
}

func (m *RWMutex) Lock() {
	if !sched.Active() {
		m.m.Lock()
		return
	}
	register(m, func() { m.w, m.readers, m.wwait = false, 0, 0 })
	sched.Point("wlock", "", false)
	m.wwait++
	func() {
		defer func() { m.wwait-- }() // also when the wait is abandoned
		sched.Block(func() bool { return m.w || m.readers > 0 })
	}()
	m.w = true
}

func (m *RWMutex) TryLock() bool {
	if !sched.Active() {
		return m.m.TryLock()
	}
	sched.Point("trywlock", "", false)
	if m.w || m.readers > 0 {
		return false
	}
	m.w = true
	return true
}

func (m *RWMutex) Unlock() {
	if !sched.Active() {
		m.m.Unlock()
		return
	}
	sched.Point("wunlock", "", false)
	if !m.w {
		panic("vsync: Unlock of unlocked RWMutex")
	}
	m.w = false
}

func (m *RWMutex) RLock() {
	if !sched.Active() {
		m.m.RLock()
		return
	}
	register(m, func() { m.w, m.readers, m.wwait = false, 0, 0 })
	sched.Point("rlock", "", false)
	sched.Block(func() bool { return m.w || m.wwait > 0 })
	m.readers++
}

func (m *RWMutex) TryRLock() bool {
	if !sched.Active() {
		return m.m.TryRLock()
	}
	sched.Point("tryrlock", "", false)
	if m.w || m.wwait > 0 {
		return false
	}
	m.readers++
	return true
}

func (m *RWMutex) RUnlock() {
	if !sched.Active() {
		m.m.RUnlock()
		return
	}
	sched.Point("runlock", "", false)
	if m.readers <= 0 {
		panic("vsync: RUnlock of unlocked RWMutex")
	}
	m.readers--
}

type rlocker RWMutex

func (r *rlocker) Lock()   { (*RWMutex)(r).RLock() }
func (r *rlocker) Unlock() { (*RWMutex)(r).RUnlock() }

func (m *RWMutex) RLocker() Locker { return (*rlocker)(m) }
