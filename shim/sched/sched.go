// Package sched is the verification shim core (virtual package, exists only in
// the check-time overlay). Two modes:
//
//   - passive: Point() appends to an operation log (the "performed no write"
//     oracle of the sequential explorers, and the free-running race pass);
//   - active: Point() is a scheduling point of the cooperative scheduler that
//     enumerates interleavings of logical threads (engine E2).
package sched

import (
	"errors"
	"fmt"
	"hash/fnv"
	"io/fs"
	"sync"
)

// ---------------------------------------------------------------------------
// passive operation log

type Op struct {
	Kind string
	Res  string
	Mut  bool // the operation can change bytes or names in the file tree
}

var (
	logMu sync.Mutex
	logOn bool
	ops   []Op
)

// StartLog begins recording shim operations (passive mode).
func StartLog() {
	logMu.Lock()
	logOn = true
	ops = ops[:0]
	logMu.Unlock()
}

// StopLog ends recording and returns what was recorded.
func StopLog() []Op {
	logMu.Lock()
	defer logMu.Unlock()
	logOn = false
	out := make([]Op, len(ops))
	copy(out, ops)
	return out
}

// ---------------------------------------------------------------------------
// environment answers (passive mode): the k-th file-system operation since
// ArmFault fails with an injected error instead of being performed.

var (
	faultAt, faultSeen int
	faultHit           string
)

// ErrInjected is what a failed operation reports.
var ErrInjected = errors.New("input/output error (injected by the verification harness)")

// ArmFault makes the k-th shim operation from now on fail (k >= 1).
func ArmFault(k int) { faultAt, faultSeen, faultHit = k, 0, "" }

// Disarm switches injection off; it returns how many operations were seen and which one failed ("" = none).
func Disarm() (int, string) {
	n, h := faultSeen, faultHit
	faultAt, faultSeen, faultHit = 0, 0, ""
	return n, h
}

// Fault is called by every shim operation right before it would act.
func Fault(kind, res string) error {
	if faultAt == 0 || (cur != nil && cur.active) {
		return nil
	}
	faultSeen++
	if faultSeen != faultAt {
		return nil
	}
	faultHit = kind + "(" + base(res) + ")"
	return &fs.PathError{Op: kind, Path: res, Err: ErrInjected}
}

// Mutations returns the mutating operations of a log.
func Mutations(l []Op) []Op {
	var out []Op
	for _, o := range l {
		if o.Mut {
			out = append(out, o)
		}
	}
	return out
}

// ---------------------------------------------------------------------------
// active mode

type abortSentinel struct{}

type thread struct {
	id      int
	resume  chan bool // true = run, false = abort
	done    bool
	blocked func() bool // non-nil: waiting until blocked() == false
	points  int
	hash    uint64 // everything this thread can have observed so far
	mutNext bool   // the step this thread is about to execute can change the file tree
}

type PointRec struct {
	Enabled        []int
	Running        int
	RunningEnabled bool
	Chosen         int
	Kind, Res      string // the operation the chosen thread is about to perform
}

type Exec struct {
	threads  []*thread
	cur      *thread
	yield    chan struct{}
	Choices  []int
	Points   []PointRec
	Trace    []string // "t<id>:<kind>:<res>" per executed step
	Panics   []string
	Deadlock bool
	Pruned   bool // stopped because the state key was already visited
	Diverged bool // prefix could not be replayed
	active   bool
	aborting bool   // the execution is being abandoned: threads unwind, deferred unlocks must run to completion
	fsDirty  bool   // a mutating step ran since the file-tree hash was taken
	fsHash   uint64 // cached FSKey()
}

// OnRunStart is set by vsync: resets the modelled state of every lock used so far.
var OnRunStart func()

var (
	cur *Exec
	// MemKey is supplied by the driver: a hash of all shared in-memory state
	// (registries, counters, skip list, shared Configs).
	MemKey func() uint64
	// FSKey is supplied by the driver: a hash of the scratch directory tree.
	FSKey func() uint64
)

func Active() bool { return cur != nil && cur.active }

func mix(h uint64, s string) uint64 {
	f := fnv.New64a()
	var b [8]byte
	for i := 0; i < 8; i++ {
		b[i] = byte(h >> (8 * i))
	}
	f.Write(b[:])
	f.Write([]byte(s))
	return f.Sum64()
}

// Observe folds a value returned by a shim operation into the running
// thread's observation hash (active mode only).
func Observe(s string) {
	e := cur
	if e == nil || !e.active || e.cur == nil {
		return
	}
	e.cur.hash = mix(e.cur.hash, s)
}

// Point is called by every shim operation before it acts.
func Point(kind, res string, mut bool) {
	e := cur
	if e == nil || !e.active {
		logMu.Lock()
		if logOn {
			ops = append(ops, Op{kind, res, mut})
		}
		logMu.Unlock()
		return
	}
	if e.aborting {
		// called from a deferred function (e.g. Unlock) while the thread unwinds: act, do not yield
		return
	}
	t := e.cur
	t.points++
	e.yield <- struct{}{}
	if ok := <-t.resume; !ok {
		panic(abortSentinel{})
	}
	t.mutNext = mut || kind == "open" || kind == "mkdirall" // their "creates something" flag is computed before the thread is parked and can be stale
	// the step now executes: fold what the thread can see of shared memory
	foldMem(t, kind, res)
	e.Trace = append(e.Trace, fmt.Sprintf("t%d:%s:%s", t.id, kind, base(res)))
}

// Block parks the current thread until cond() is false (modelled lock wait).
func Block(cond func() bool) {
	e := cur
	if e == nil || !e.active {
		return
	}
	for cond() {
		if e.aborting {
			return
		}
		t := e.cur
		t.blocked = cond
		e.yield <- struct{}{}
		if ok := <-t.resume; !ok {
			panic(abortSentinel{})
		}
		t.blocked = nil
		foldMem(t, "unblock", "")
	}
}

// foldMem folds the step into the thread's observation hash. The shared
// in-memory state is folded in where the thread can read it: at thread start
// and whenever it acquires a lock (assumption A2: shared memory is only read
// under a lock; unsynchronised accesses are the business of the -race pass).
func foldMem(t *thread, kind, res string) {
	readsMem := kind == "start" || kind == "unblock" || kind == "lock" || kind == "rlock" || kind == "wlock" ||
		kind == "trylock" || kind == "trywlock" || kind == "tryrlock"
	if MemKey != nil && readsMem {
		t.hash = mix(t.hash, fmt.Sprintf("%s|%s|%x", kind, res, MemKey()))
	} else {
		t.hash = mix(t.hash, kind+"|"+res)
	}
}

// Run executes bodies as logical threads under the choice sequence prefix
// (default choice 0 afterwards). seen != nil enables state-key pruning after
// the prefix has been consumed.
func Run(prefix []int, bodies []func(), seen map[[2]uint64]struct{}) *Exec {
	if OnRunStart != nil {
		OnRunStart()
	}
	e := &Exec{yield: make(chan struct{}), active: true, fsDirty: true}
	cur = e
	for i, b := range bodies {
		t := &thread{id: i, resume: make(chan bool), hash: uint64(i) + 1}
		e.threads = append(e.threads, t)
		body := b
		go func() {
			defer func() {
				if r := recover(); r != nil {
					if _, ok := r.(abortSentinel); !ok {
						e.Panics = append(e.Panics, fmt.Sprint(r))
					}
				}
				t.done = true
				e.yield <- struct{}{}
			}()
			if ok := <-t.resume; !ok {
				panic(abortSentinel{})
			}
			foldMem(t, "start", "")
			body()
		}()
	}
	abortAll := func() {
		e.aborting = true
		for _, t := range e.threads {
			if !t.done {
				e.cur = t
				t.resume <- false
				<-e.yield
			}
		}
	}
	running := -1
	for {
		var enabled []int
		alldone := true
		for _, t := range e.threads {
			if t.done {
				continue
			}
			alldone = false
			if t.blocked != nil && t.blocked() {
				continue
			}
			enabled = append(enabled, t.id)
		}
		if alldone {
			break
		}
		if len(enabled) == 0 {
			e.Deadlock = true
			abortAll()
			break
		}
		// canonical order: running thread first if enabled, rest ascending
		re := false
		for i, id := range enabled {
			if id == running {
				re = true
				copy(enabled[1:i+1], enabled[:i])
				enabled[0] = id
				break
			}
		}
		k := len(e.Choices)
		if seen != nil && k >= len(prefix) {
			key := e.stateKey()
			if _, ok := seen[key]; ok {
				e.Pruned = true
				abortAll()
				break
			}
			seen[key] = struct{}{}
		}
		choice := 0
		if k < len(prefix) {
			choice = prefix[k]
			if choice >= len(enabled) {
				e.Diverged = true
				abortAll()
				break
			}
		}
		e.Points = append(e.Points, PointRec{Enabled: append([]int{}, enabled...), Running: running, RunningEnabled: re, Chosen: choice})
		e.Choices = append(e.Choices, choice)
		t := e.threads[enabled[choice]]
		running = t.id
		e.cur = t
		t.resume <- true
		<-e.yield
		if t.mutNext {
			// the step that just ran could change the file tree
			e.fsDirty = true
			t.mutNext = false
		}
	}
	e.active = false
	cur = nil
	return e
}

func (e *Exec) stateKey() [2]uint64 {
	var g uint64 = 1469598103934665603
	if FSKey != nil {
		if e.fsDirty {
			e.fsHash, e.fsDirty = FSKey(), false
		}
		g = mix(g, fmt.Sprintf("fs%x", e.fsHash))
	}
	if MemKey != nil {
		g = mix(g, fmt.Sprintf("mem%x", MemKey()))
	}
	var l uint64 = 99
	for _, t := range e.threads {
		l = mix(l, fmt.Sprintf("%d|%d|%x|%v|%v", t.id, t.points, t.hash, t.done, t.blocked != nil))
	}
	return [2]uint64{g, l}
}

// Preemptions counts the preemptive switches in the first n points.
func (e *Exec) Preemptions(n int) int {
	c := 0
	for j := 0; j < n && j < len(e.Points); j++ {
		q := e.Points[j]
		if q.RunningEnabled && q.Chosen != 0 {
			c++
		}
	}
	return c
}

// Stats of one exploration.
type Stats struct {
	Executions int
	Pruned     int
	States     int
	MaxPoints  int
	Capped     bool
}

// Explore enumerates all schedules with at most bound preemptions (bound < 0:
// unbounded with state-key pruning). mk builds a fresh world and returns the
// thread bodies; check is called for every complete execution and returns
// false to stop the exploration. subtree, if non-nil, restricts the search to
// schedules starting with that prefix. maxExec caps the executions (0 = none).
func Explore(bound int, subtree []int, maxExec int, mk func() []func(), check func(*Exec) bool) Stats {
	return ExploreUntil(bound, subtree, maxExec, nil, mk, check)
}

// ExploreUntil is Explore with a stop predicate polled every 256 executions
// (an internal deadline ends the exploration with Stats.Capped).
func ExploreUntil(bound int, subtree []int, maxExec int, stop func() bool, mk func() []func(), check func(*Exec) bool) Stats {
	var st Stats
	var seen map[[2]uint64]struct{}
	if bound < 0 {
		seen = map[[2]uint64]struct{}{}
	}
	var rec func(prefix []int) bool
	rec = func(prefix []int) bool {
		if maxExec > 0 && st.Executions >= maxExec {
			st.Capped = true
			return false
		}
		if stop != nil && st.Executions%256 == 255 && stop() {
			st.Capped = true
			return false
		}
		x := Run(prefix, mk(), seen)
		st.Executions++
		if len(x.Points) > st.MaxPoints {
			st.MaxPoints = len(x.Points)
		}
		if x.Diverged {
			// the sub-tree prefix does not exist for this scenario
			if len(prefix) <= len(subtree) {
				return true
			}
			panic(fmt.Sprintf("sched: replay divergence at prefix %v", prefix))
		}
		if x.Pruned {
			st.Pruned++
		} else if !check(x) {
			return false
		}
		for i := len(prefix); i < len(x.Points); i++ {
			p := x.Points[i]
			cost := x.Preemptions(i)
			for alt := 1; alt < len(p.Enabled); alt++ {
				c := cost
				if p.RunningEnabled {
					c++
				}
				if bound >= 0 && c > bound {
					continue
				}
				np := append(append([]int{}, x.Choices[:i]...), alt)
				if !rec(np) {
					return false
				}
			}
		}
		return true
	}
	rec(append([]int{}, subtree...))
	st.States = len(seen)
	return st
}

func base(p string) string {
	for i := len(p) - 1; i >= 0; i-- {
		if p[i] == '/' {
			return p[i+1:]
		}
	}
	return p
}
