// Package vos wraps the real file system 1:1; every operation is a
// sched.Point (logged in passive mode, a scheduling point in active mode).
// Identifiers of package os that are not listed here are redirected to the
// real package by the import rewriter.
package vos

import (
	"fmt"
	"io/fs"
	"os"
	"time"

	"github.com/gkampitakis/go-snaps/internal/verifhook/sched"
)

const (
	O_RDONLY = os.O_RDONLY
	O_WRONLY = os.O_WRONLY
	O_RDWR   = os.O_RDWR
	O_APPEND = os.O_APPEND
	O_CREATE = os.O_CREATE
	O_EXCL   = os.O_EXCL
	O_SYNC   = os.O_SYNC
	O_TRUNC  = os.O_TRUNC
)

type File struct{ f *os.File }

func exists(name string) bool { _, err := os.Lstat(name); return err == nil }

func errs(err error) string {
	if err == nil {
		return "ok"
	}
	return "err:" + err.Error()
}

func OpenFile(name string, flag int, perm fs.FileMode) (*File, error) {
	mut := flag&os.O_TRUNC != 0 || (flag&os.O_CREATE != 0 && !exists(name))
	sched.Point("open", name, mut)
	if err := sched.Fault("open", name); err != nil {
		sched.Observe(errs(err))
		return nil, err
	}
	f, err := os.OpenFile(name, flag, perm)
	sched.Observe(errs(err))
	if err != nil {
		return nil, err
	}
	return &File{f}, nil
}

func Open(name string) (*File, error) { return OpenFile(name, os.O_RDONLY, 0) }

func Create(name string) (*File, error) {
	return OpenFile(name, os.O_RDWR|os.O_CREATE|os.O_TRUNC, 0o666)
}

func (f *File) Name() string { return f.f.Name() }

func (f *File) Close() error {
	sched.Point("close", f.f.Name(), false)
	if err := sched.Fault("close", f.f.Name()); err != nil {
		sched.Observe(errs(err))
		return err
	}
	return f.f.Close()
}

func (f *File) Write(b []byte) (int, error) {
	sched.Point("write", f.f.Name(), true)
	if err := sched.Fault("write", f.f.Name()); err != nil {
		sched.Observe(errs(err))
		return 0, err
	}
	n, err := f.f.Write(b)
	sched.Observe(fmt.Sprint(n, errs(err)))
	return n, err
}

func (f *File) WriteString(s string) (int, error) {
	sched.Point("write", f.f.Name(), true)
	if err := sched.Fault("write", f.f.Name()); err != nil {
		sched.Observe(errs(err))
		return 0, err
	}
	n, err := f.f.WriteString(s)
	sched.Observe(fmt.Sprint(n, errs(err)))
	return n, err
}

func (f *File) WriteAt(b []byte, off int64) (int, error) {
	sched.Point("writeat", f.f.Name(), true)
	if err := sched.Fault("writeat", f.f.Name()); err != nil {
		sched.Observe(errs(err))
		return 0, err
	}
	n, err := f.f.WriteAt(b, off)
	sched.Observe(fmt.Sprint(n, errs(err)))
	return n, err
}

func (f *File) Read(b []byte) (int, error) {
	sched.Point("read", f.f.Name(), false)
	if err := sched.Fault("read", f.f.Name()); err != nil {
		sched.Observe(errs(err))
		return 0, err
	}
	n, err := f.f.Read(b)
	sched.Observe(fmt.Sprint(n, errs(err)) + string(b[:max(n, 0)]))
	return n, err
}

func (f *File) ReadAt(b []byte, off int64) (int, error) {
	sched.Point("readat", f.f.Name(), false)
	if err := sched.Fault("readat", f.f.Name()); err != nil {
		sched.Observe(errs(err))
		return 0, err
	}
	n, err := f.f.ReadAt(b, off)
	sched.Observe(fmt.Sprint(n, errs(err)) + string(b[:max(n, 0)]))
	return n, err
}

func (f *File) Truncate(n int64) error {
	sched.Point("truncate", f.f.Name(), true)
	if err := sched.Fault("truncate", f.f.Name()); err != nil {
		sched.Observe(errs(err))
		return err
	}
	err := f.f.Truncate(n)
	sched.Observe(errs(err))
	return err
}

func (f *File) Seek(o int64, w int) (int64, error) {
	sched.Point("seek", f.f.Name(), false)
	if err := sched.Fault("seek", f.f.Name()); err != nil {
		sched.Observe(errs(err))
		return 0, err
	}
	n, err := f.f.Seek(o, w)
	sched.Observe(fmt.Sprint(n, errs(err)))
	return n, err
}

func (f *File) Stat() (fs.FileInfo, error) {
	sched.Point("fstat", f.f.Name(), false)
	if err := sched.Fault("fstat", f.f.Name()); err != nil {
		sched.Observe(errs(err))
		return nil, err
	}
	i, err := f.f.Stat()
	if err == nil {
		sched.Observe(fmt.Sprint(i.Size()))
	} else {
		sched.Observe(errs(err))
	}
	return i, err
}

func (f *File) Sync() error {
	sched.Point("sync", f.f.Name(), false)
	if err := sched.Fault("sync", f.f.Name()); err != nil {
		sched.Observe(errs(err))
		return err
	}
	return f.f.Sync()
}

func (f *File) Chmod(m fs.FileMode) error {
	sched.Point("fchmod", f.f.Name(), true)
	if err := sched.Fault("fchmod", f.f.Name()); err != nil {
		sched.Observe(errs(err))
		return err
	}
	return f.f.Chmod(m)
}

func (f *File) ReadDir(n int) ([]fs.DirEntry, error) {
	sched.Point("freaddir", f.f.Name(), false)
	if err := sched.Fault("freaddir", f.f.Name()); err != nil {
		sched.Observe(errs(err))
		return nil, err
	}
	return f.f.ReadDir(n)
}

func (f *File) Fd() uintptr { return f.f.Fd() }

func ReadFile(n string) ([]byte, error) {
	sched.Point("readfile", n, false)
	if err := sched.Fault("readfile", n); err != nil {
		sched.Observe(errs(err))
		return nil, err
	}
	b, err := os.ReadFile(n)
	sched.Observe(errs(err) + string(b))
	return b, err
}

func WriteFile(n string, b []byte, p fs.FileMode) error {
	sched.Point("writefile", n, true)
	if err := sched.Fault("writefile", n); err != nil {
		sched.Observe(errs(err))
		return err
	}
	err := os.WriteFile(n, b, p)
	sched.Observe(errs(err))
	return err
}

func MkdirAll(n string, p fs.FileMode) error {
	sched.Point("mkdirall", n, !exists(n))
	if err := sched.Fault("mkdirall", n); err != nil {
		sched.Observe(errs(err))
		return err
	}
	err := os.MkdirAll(n, p)
	sched.Observe(errs(err))
	return err
}

func Mkdir(n string, p fs.FileMode) error {
	sched.Point("mkdir", n, true)
	if err := sched.Fault("mkdir", n); err != nil {
		sched.Observe(errs(err))
		return err
	}
	err := os.Mkdir(n, p)
	sched.Observe(errs(err))
	return err
}

func Remove(n string) error {
	sched.Point("remove", n, true)
	if err := sched.Fault("remove", n); err != nil {
		sched.Observe(errs(err))
		return err
	}
	err := os.Remove(n)
	sched.Observe(errs(err))
	return err
}

func RemoveAll(n string) error {
	sched.Point("removeall", n, true)
	if err := sched.Fault("removeall", n); err != nil {
		sched.Observe(errs(err))
		return err
	}
	err := os.RemoveAll(n)
	sched.Observe(errs(err))
	return err
}

func Rename(a, b string) error {
	sched.Point("rename", a+" -> "+b, true)
	if err := sched.Fault("rename", a+" -> "+b); err != nil {
		sched.Observe(errs(err))
		return err
	}
	err := os.Rename(a, b)
	sched.Observe(errs(err))
	return err
}

func Truncate(n string, size int64) error {
	sched.Point("truncatepath", n, true)
	if err := sched.Fault("truncatepath", n); err != nil {
		sched.Observe(errs(err))
		return err
	}
	err := os.Truncate(n, size)
	sched.Observe(errs(err))
	return err
}

func Chmod(n string, m fs.FileMode) error {
	sched.Point("chmod", n, true)
	if err := sched.Fault("chmod", n); err != nil {
		sched.Observe(errs(err))
		return err
	}
	return os.Chmod(n, m)
}

func Chtimes(n string, a, m time.Time) error {
	sched.Point("chtimes", n, true)
	if err := sched.Fault("chtimes", n); err != nil {
		sched.Observe(errs(err))
		return err
	}
	return os.Chtimes(n, a, m)
}

func Symlink(a, b string) error {
	sched.Point("symlink", b, true)
	if err := sched.Fault("symlink", b); err != nil {
		sched.Observe(errs(err))
		return err
	}
	return os.Symlink(a, b)
}

func Link(a, b string) error {
	sched.Point("link", b, true)
	if err := sched.Fault("link", b); err != nil {
		sched.Observe(errs(err))
		return err
	}
	return os.Link(a, b)
}

func ReadDir(n string) ([]fs.DirEntry, error) {
	sched.Point("readdir", n, false)
	if err := sched.Fault("readdir", n); err != nil {
		sched.Observe(errs(err))
		return nil, err
	}
	d, err := os.ReadDir(n)
	s := errs(err)
	for _, e := range d {
		s += "|" + e.Name()
	}
	sched.Observe(s)
	return d, err
}

func Stat(n string) (fs.FileInfo, error) {
	sched.Point("stat", n, false)
	if err := sched.Fault("stat", n); err != nil {
		sched.Observe(errs(err))
		return nil, err
	}
	i, err := os.Stat(n)
	if err == nil {
		sched.Observe(fmt.Sprint(i.Size(), i.IsDir()))
	} else {
		sched.Observe(errs(err))
	}
	return i, err
}

func Lstat(n string) (fs.FileInfo, error) {
	sched.Point("lstat", n, false)
	if err := sched.Fault("lstat", n); err != nil {
		sched.Observe(errs(err))
		return nil, err
	}
	i, err := os.Lstat(n)
	if err == nil {
		sched.Observe(fmt.Sprint(i.Size(), i.IsDir()))
	} else {
		sched.Observe(errs(err))
	}
	return i, err
}
