module verif/vcheck

go 1.22
