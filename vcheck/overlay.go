package main

import (
	"bytes"
	"encoding/json"
	"fmt"
	"go/ast"
	"go/format"
	"go/parser"
	"go/token"
	"os"
	"path/filepath"
	"sort"
	"strconv"
	"strings"
)

const (
	hookBase  = "github.com/gkampitakis/go-snaps/internal/verifhook/"
	verifRoot = "/verif"
)

// repoRoot is /repo for every registered command; VERIF_REPO overrides it for
// the self-test on scratch copies carrying a deliberate mutation.
var repoRoot = "/repo"

func hookDir() string { return repoRoot + "/internal/verifhook" }

// exportedNames parses the shim package and returns its exported top-level
// identifiers (funcs, types, consts, vars).
func exportedNames(dir string) (map[string]bool, error) {
	fset := token.NewFileSet()
	pkgs, err := parser.ParseDir(fset, dir, nil, 0)
	if err != nil {
		return nil, err
	}
	out := map[string]bool{}
	for _, p := range pkgs {
		for _, f := range p.Files {
			for _, d := range f.Decls {
				switch d := d.(type) {
				case *ast.FuncDecl:
					if d.Recv == nil && d.Name.IsExported() {
						out[d.Name.Name] = true
					}
				case *ast.GenDecl:
					for _, s := range d.Specs {
						switch s := s.(type) {
						case *ast.TypeSpec:
							if s.Name.IsExported() {
								out[s.Name.Name] = true
							}
						case *ast.ValueSpec:
							for _, n := range s.Names {
								if n.IsExported() {
									out[n.Name] = true
								}
							}
						}
					}
				}
			}
		}
	}
	return out, nil
}

// rewriteFile redirects imports of "os" and "sync" to the shims. Selectors the
// shim does not export are redirected to the real package under an alias, so
// a changed /repo that starts using another os/sync identifier still builds.
func rewriteFile(src []byte, name string, shims map[string]map[string]bool) ([]byte, bool, error) {
	fset := token.NewFileSet()
	f, err := parser.ParseFile(fset, name, src, parser.ParseComments)
	if err != nil {
		return nil, false, err
	}
	// local name -> real import path, for os and sync
	local := map[string]string{}
	for _, im := range f.Imports {
		p, _ := strconv.Unquote(im.Path.Value)
		if p != "os" && p != "sync" {
			continue
		}
		n := p
		if im.Name != nil {
			n = im.Name.Name
		}
		if n == "_" || n == "." {
			continue
		}
		local[n] = p
	}
	if len(local) == 0 {
		return src, false, nil
	}
	needReal := map[string]bool{}
	useShim := map[string]bool{}
	var toReal []*ast.Ident
	ast.Inspect(f, func(n ast.Node) bool {
		se, ok := n.(*ast.SelectorExpr)
		if !ok {
			return true
		}
		id, ok := se.X.(*ast.Ident)
		if !ok || id.Obj != nil { // Obj != nil: a local object shadows the package
			return true
		}
		real, ok := local[id.Name]
		if !ok {
			return true
		}
		if shims[real][se.Sel.Name] {
			useShim[real] = true
		} else {
			toReal = append(toReal, id)
			needReal[real] = true
		}
		return true
	})
	for _, id := range toReal {
		real := local[id.Name]
		if useShim[real] {
			id.Name = "verifreal" + real
		}
	}
	for k := range needReal {
		if !useShim[k] {
			delete(needReal, k) // the original import stays as it is
		}
	}
	if len(useShim) == 0 {
		return src, false, nil
	}
	for _, im := range f.Imports {
		p, _ := strconv.Unquote(im.Path.Value)
		if (p != "os" && p != "sync") || !useShim[p] {
			continue
		}
		n := p
		if im.Name != nil {
			n = im.Name.Name
		}
		if n == "_" || n == "." {
			continue
		}
		im.Name = ast.NewIdent(n)
		im.Path.Value = strconv.Quote(hookBase + "v" + p)
	}
	var buf bytes.Buffer
	if err := format.Node(&buf, fset, f); err != nil {
		return nil, false, err
	}
	out := buf.Bytes()
	if len(needReal) > 0 {
		// append extra import declarations right after the package clause
		var extra strings.Builder
		var keys []string
		for k := range needReal {
			keys = append(keys, k)
		}
		sort.Strings(keys)
		for _, k := range keys {
			fmt.Fprintf(&extra, "import verifreal%s %q\n", k, k)
		}
		// find end of package clause line
		s := string(out)
		idx := strings.Index(s, "\npackage ")
		if strings.HasPrefix(s, "package ") {
			idx = -1
		}
		lineEnd := strings.Index(s[idx+1:], "\n") + idx + 1
		s = s[:lineEnd+1] + extra.String() + s[lineEnd+1:]
		out = []byte(s)
	}
	return out, true, nil
}

type overlaySpec struct {
	instrument bool     // rewrite os/sync of package snaps
	injectPkgs []string // which inject/<pkg> directories to add
	extraFiles map[string]string
}

// pkgDirs maps inject directory name to the package directory in /repo.
var pkgDirs = map[string]string{
	"snaps":   "snaps",
	"match":   "match",
	"difflib": "internal/difflib",
}

// buildOverlay writes rewritten sources and overlay.json into scratch and
// returns the path of overlay.json.
func buildOverlay(scratch string, spec overlaySpec) (string, error) {
	repl := map[string]string{}
	// 1. mask the repo's own tests in the packages we inject into
	for _, ip := range spec.injectPkgs {
		dir := filepath.Join(repoRoot, pkgDirs[ip])
		ents, err := os.ReadDir(dir)
		if err != nil {
			return "", err
		}
		for _, e := range ents {
			if !e.IsDir() && strings.HasSuffix(e.Name(), "_test.go") {
				repl[filepath.Join(dir, e.Name())] = ""
			}
		}
		// 2. inject drivers
		idir := filepath.Join(verifRoot, "inject", ip)
		ients, err := os.ReadDir(idir)
		if err != nil {
			return "", err
		}
		for _, e := range ients {
			if strings.HasSuffix(e.Name(), ".go") {
				base := strings.TrimSuffix(e.Name(), ".go")
				if strings.HasSuffix(base, "_nontest") {
					// a helper that must NOT live in a test file (what the library decides from the caller's file name)
					repl[filepath.Join(dir, "zz_verif_"+strings.TrimSuffix(base, "_nontest")+".go")] = filepath.Join(idir, e.Name())
					continue
				}
				base = strings.TrimSuffix(base, "_test")
				repl[filepath.Join(dir, "zz_verif_"+base+"_test.go")] = filepath.Join(idir, e.Name())
			}
		}
	}
	// 3. shims (virtual packages)
	for _, s := range []string{"sched", "vos", "vsync"} {
		repl[filepath.Join(hookDir(), s, s+".go")] = filepath.Join(verifRoot, "shim", s, s+".go")
	}
	// 4. instrument package snaps
	if spec.instrument {
		shims := map[string]map[string]bool{}
		for real, dir := range map[string]string{"os": "vos", "sync": "vsync"} {
			ex, err := exportedNames(filepath.Join(verifRoot, "shim", dir))
			if err != nil {
				return "", err
			}
			shims[real] = ex
		}
		dir := filepath.Join(repoRoot, "snaps")
		ents, err := os.ReadDir(dir)
		if err != nil {
			return "", err
		}
		if err := os.MkdirAll(filepath.Join(scratch, "src"), 0o755); err != nil {
			return "", err
		}
		for _, e := range ents {
			n := e.Name()
			if e.IsDir() || !strings.HasSuffix(n, ".go") || strings.HasSuffix(n, "_test.go") {
				continue
			}
			src, err := os.ReadFile(filepath.Join(dir, n))
			if err != nil {
				return "", err
			}
			out, changed, err := rewriteFile(src, n, shims)
			if err != nil {
				return "", fmt.Errorf("rewrite %s: %w", n, err)
			}
			if !changed {
				continue
			}
			dst := filepath.Join(scratch, "src", n)
			if err := os.WriteFile(dst, out, 0o644); err != nil {
				return "", err
			}
			repl[filepath.Join(dir, n)] = dst
		}
	}
	for k, v := range spec.extraFiles {
		repl[k] = v
	}
	b, _ := json.MarshalIndent(map[string]any{"Replace": repl}, "", " ")
	p := filepath.Join(scratch, "overlay.json")
	return p, os.WriteFile(p, b, 0o644)
}
