package main

import (
	"encoding/json"
	"fmt"
	"os"
	"path/filepath"
	"sort"
	"strings"
	"sync"
)

// C05, E3 twin (DESIGN §6 C05): the mode table with the REAL environment
// (CI=true / UPDATE_SNAPS=...) of a real test binary, which binds the
// init-time expressions that the in-process explorer overwrites.

type c05Cell struct {
	Kind  string `json:"kind"` // call | clean
	CI    bool   `json:"ci"`
	Env   string `json:"env"`
	Opt   string `json:"opt,omitempty"` // default | update-true | update-false
	API   string `json:"api,omitempty"`
	Slot  string `json:"slot,omitempty"`
	Sort  bool   `json:"sort,omitempty"`
	Stale bool   `json:"stale,omitempty"`
	E3    bool   `json:"e3"`            // marks the case as an E3 cell for replay dispatch
	How   string `json:"how,omitempty"` // how the environment announces (or denies) CI, `;`-separated assignments; "" = CI=true when CI is set
}

func runC05E3(tier, scratch, replay string, nworkers int) *merged {
	m := newMerged()
	var cells []c05Cell
	for _, ci := range []bool{false, true} {
		for _, env := range []string{"", "true", "clean", "yes", "TRUE", "1", "true "} {
			for _, opt := range []string{"default", "update-true", "update-false"} {
				for _, api := range []string{"snap", "json", "yaml", "ssnap", "sjson"} {
					for _, slot := range []string{"missing", "equal", "different"} {
						cells = append(cells, c05Cell{Kind: "call", CI: ci, Env: env, Opt: opt, API: api, Slot: slot, E3: true})
					}
				}
			}
			for _, srt := range []bool{false, true} {
				for _, stale := range []bool{false, true} {
					cells = append(cells, c05Cell{Kind: "clean", CI: ci, Env: env, Sort: srt, Stale: stale, E3: true})
				}
			}
		}
	}
	// other ways an environment says "this is CI" (the reference is the detection rule of the ciinfo dependency: CI is not the
	// literal `false`, and a vendor variable or one of the generic variables - CI, BUILD_NUMBER, RUN_ID ... - is present) and "this is not"
	for _, h := range []struct {
		how string
		ci  bool
	}{{"CI=0;GITHUB_ACTIONS=true", true}, {"CI=False;GITHUB_ACTIONS=true", true}, {"CI=0;BUILD_NUMBER=17", true}, {"CI=1", true}, {"CI=", true}, {"RUN_ID=x", true},
		{"CI=false;GITHUB_ACTIONS=true", false}, {"CI=false;BUILD_NUMBER=17", false}, {"NOT_CI=true", false}} {
		for _, env := range []string{"", "true"} {
			for _, opt := range []string{"default", "update-true"} {
				for _, api := range []string{"snap", "sjson"} {
					for _, slot := range []string{"missing", "different"} {
						cells = append(cells, c05Cell{Kind: "call", CI: h.ci, Env: env, Opt: opt, API: api, Slot: slot, E3: true, How: h.how})
					}
				}
			}
			cells = append(cells, c05Cell{Kind: "clean", CI: h.ci, Env: env, Sort: true, Stale: true, E3: true, How: h.how})
		}
	}
	m.bounds["cells"] = len(cells)
	ws, err := e3Workers(scratch, nworkers)
	if err != nil {
		m.harnessErrs = append(m.harnessErrs, err.Error())
		return m
	}
	var mu sync.Mutex
	e3Parallel(ws, cells, func(w *e3Worker, c c05Cell) {
		snapDir := filepath.Join(w.dir, "__snapshots__")
		os.RemoveAll(snapDir)
		envOf := func(ci bool, upd string) map[string]string {
			e := map[string]string{}
			if c.How != "" {
				for _, kv := range strings.Split(c.How, ";") {
					k, v, _ := strings.Cut(kv, "=")
					e[k] = v
				}
			} else if ci {
				e["CI"] = "true"
			}
			if upd != "" {
				e["UPDATE_SNAPS"] = upd
			}
			return e
		}
		cb, _ := json.Marshal(c)
		fail := func(f string, a ...any) {
			mu.Lock()
			m.viol("", fmt.Sprintf("E3 cell %s: ", cb)+fmt.Sprintf(f, a...), c)
			mu.Unlock()
		}
		count := func(trans int) {
			mu.Lock()
			m.counters["evaluations"]++
			m.counters["traces"]++
			m.counters["transitions"] += int64(trans)
			m.counters["runs_of_real_binary"] += int64(trans)
			m.set("nontrivial")[hash64(string(cb))] = struct{}{}
			mu.Unlock()
		}
		mayCreate := !c.CI && c.Opt != "update-false"
		mayUpdate := !c.CI && (c.Opt == "update-true" || (c.Opt == "default" && c.Env == "true"))
		if c.Kind == "call" {
			old, neu := "old value", "new value"
			if c.API == "json" || c.API == "sjson" {
				old, neu = `{"v":1}`, `{"v":2}`
			} else if c.API == "yaml" {
				old, neu = "v: 1\n", "v: 2\n"
			}
			if c.Slot != "missing" {
				v := old
				if c.Slot == "equal" {
					v = neu
				}
				r := w.run(e3Spec{"TestA": {Calls: []e3Call{{API: c.API, Cfg: "default", Val: v}}}}, "^TestA$", 1, map[string]string{"E3_NOCLEAN": "1"})
				if r.exit != 0 {
					fail("setup run failed: %s", tail(r.stdout, 600))
					return
				}
			}
			before := e3ReadTree(snapDir)
			r := w.run(e3Spec{"TestA": {Calls: []e3Call{{API: c.API, Cfg: c.Opt, Val: neu}}}}, "^TestA$", 1, envOf(c.CI, c.Env))
			after := e3ReadTree(snapDir)
			count(2)
			changed := fmt.Sprint(sortedTree(before)) != fmt.Sprint(sortedTree(after))
			var wantFail, wantChange bool
			switch c.Slot {
			case "missing":
				wantFail, wantChange = !mayCreate, mayCreate
			case "equal":
			case "different":
				wantFail, wantChange = !mayUpdate, mayUpdate
			}
			mu.Lock()
			m.outcomes[fmt.Sprintf("e3:%s fail=%v write=%v", c.Slot, r.exit != 0, changed)]++
			m.set("states")[hash64(fmt.Sprint(sortedTree(after)), string(cb))] = struct{}{}
			mu.Unlock()
			if (r.exit != 0) != wantFail {
				fail("test failed=%v, the mode table says failed=%v: %s", r.exit != 0, wantFail, tail(r.stdout, 500))
				return
			}
			if changed != wantChange {
				fail("snapshot directory modified=%v, the mode table says %v (before %v, after %v)", changed, wantChange, sortedTree(before), sortedTree(after))
			}
			return
		}
		// clean cell: TestA and TestB match their entries; stale entry and stale files planted
		prog := e3Spec{"TestA": {Calls: []e3Call{snap("default")}}, "TestB": {Calls: []e3Call{snap("default")}}}
		r0 := w.run(prog, "", 1, map[string]string{"E3_NOCLEAN": "1"})
		if r0.exit != 0 {
			fail("setup run failed: %s", tail(r0.stdout, 600))
			return
		}
		tree := e3ReadTree(snapDir)
		// a_test.snap holds [TestA - 1]; b_test.snap holds [TestB - 1]. make b unsorted with a stale entry in front
		if c.Stale {
			tree["b_test.snap"] = e3Render([]e3Entry{{"TestZStale - 1", "stale"}}) + tree["b_test.snap"]
			tree["gone_test.snap"] = e3Render([]e3Entry{{"TestGone - 1", "x"}})
			tree["TestGone_1.snap"] = "raw"
		}
		tree["notes.txt"] = "not a snapshot"
		e3WriteTree(snapDir, tree)
		env := envOf(c.CI, c.Env)
		if c.Sort {
			env["E3_SORT"] = "1"
		}
		r := w.run(prog, "", 1, env)
		after := e3ReadTree(snapDir)
		count(2)
		mayDelete := !c.CI && (c.Env == "true" || c.Env == "clean")
		maySort := !c.CI && c.Sort
		mu.Lock()
		m.outcomes[fmt.Sprintf("e3:clean delete=%v sort=%v", mayDelete, maySort)]++
		m.set("states")[hash64(fmt.Sprint(sortedTree(after)), string(cb))] = struct{}{}
		mu.Unlock()
		if r.exit != 0 {
			fail("clean cell: tests failed: %s", tail(r.stdout, 500))
			return
		}
		for _, f := range []string{"gone_test.snap", "TestGone_1.snap"} {
			_, was := tree[f]
			_, is := after[f]
			if was && is == mayDelete {
				fail("obsolete file %s present after Clean=%v, deletion allowed=%v", f, is, mayDelete)
				return
			}
		}
		if after["notes.txt"] != "not a snapshot" || after["a_test.snap"] != tree["a_test.snap"] {
			fail("Clean touched files it must not touch: %v", sortedTree(after))
			return
		}
		es, perr := e3Parse(after["b_test.snap"])
		var ids []string
		for _, e := range es {
			ids = append(ids, e.ID)
		}
		want := []string{"TestB - 1"}
		if c.Stale && !mayDelete {
			want = []string{"TestZStale - 1", "TestB - 1"}
			if maySort {
				want = []string{"TestB - 1", "TestZStale - 1"}
			}
		}
		if perr != nil || strings.Join(ids, "|") != strings.Join(want, "|") {
			fail("b_test.snap after Clean holds %v (%v), the mode table says %v", ids, perr, want)
			return
		}
		if !mayDelete && !maySort && fmt.Sprint(sortedTree(tree)) != fmt.Sprint(sortedTree(after)) {
			fail("Clean may neither delete nor sort but the directory changed")
		}
	})
	return m
}

func sortedTree(t e3Tree) []string {
	var out []string
	for k, v := range t {
		out = append(out, k+"="+v)
	}
	sort.Strings(out)
	return out
}
