package main

func runC11(tier, scratch, replay string, nworkers int) *merged {
	m := newMerged()
	m.harnessErrs = append(m.harnessErrs, "C11 not built yet")
	return m
}

func runC05E3(tier, scratch, replay string, nworkers int) *merged {
	m := newMerged()
	return m
}
