package main

import (
	"bufio"
	"encoding/json"
	"fmt"
	"os"
	"os/exec"
	"path/filepath"
	"strings"
	"sync"
)

// C11 — snapshot location is a pure function of test file, test name and
// options (DESIGN §6 C11). Engine E3: a generated module with packages at three
// depths, each looping over Dir x Filename x Ext x API x call shape inside the
// test binary; one binary run per (depth, build, cwd, GOROOT).

type c11Combo struct {
	Idx      int    `json:"idx"`
	Name     string `json:"name"`
	Dir      string `json:"dir"`
	Filename string `json:"filename"`
	Ext      string `json:"ext"`
	API      string `json:"api"`
	Shape    string `json:"shape"`
}

type c11Result struct {
	Combo    c11Combo `json:"combo"`
	TestName string   `json:"test_name"`
	Created  []string `json:"created"`
	Failed   bool     `json:"failed"`
	Phase    int      `json:"phase,omitempty"`
	Updated  bool     `json:"updated,omitempty"`
}

type c11Run struct {
	Depth   string `json:"depth"` // "" | sub | sub/deep
	Build   string `json:"build"` // plain | trimpath-flag | trimpath-goflags
	Chdir   bool   `json:"chdir,omitempty"`
	GOROOT  bool   `json:"goroot,omitempty"`
	Goflags string `json:"goflags,omitempty"` // GOFLAGS in the environment of the test binary
	Combo   *int   `json:"combo,omitempty"`   // replay: report only this combination
}

func c11Tmpl(name string) string { return e3Template(filepath.Join("c11", name)) }

func c11WriteModule(root string) error {
	if err := e3WriteModule(root); err != nil { // go.mod / go.sum (the C08 sources are removed below)
		return err
	}
	for _, f := range []string{"main_test.go", "interp.go"} {
		os.Remove(filepath.Join(root, f))
	}
	for f := range e3Files {
		os.Remove(filepath.Join(root, f))
	}
	os.MkdirAll(filepath.Join(root, "c11lib"), 0o755)
	os.WriteFile(filepath.Join(root, "c11lib", "lib.go"), []byte(c11Tmpl("lib.go.tmpl")), 0o644)
	calls := c11Tmpl("calls.go.tmpl")
	marker := "// {{FN}} performs"
	fnBody := calls[strings.Index(calls, marker):strings.Index(calls, "// {{FN}}Deep recurses")]
	os.MkdirAll(filepath.Join(root, "helperpkg"), 0o755)
	os.WriteFile(filepath.Join(root, "helperpkg", "helper.go"),
		[]byte(strings.NewReplacer("{{PKG}}", "helperpkg", "{{FN}}", "Call", "{{WHERE}}", "helper in another package").Replace(calls)), 0o644)
	for _, depth := range []string{"", "sub", "sub/deep"} {
		dir := filepath.Join(root, depth)
		os.MkdirAll(dir, 0o755)
		pkg := "e3c11"
		main := c11Tmpl("main_test.go.tmpl")
		main = strings.Replace(main, "\t\"e3mod/helperpkg\"\n", "\t\"e3mod/helperpkg\"\n\n\t\"github.com/gkampitakis/go-snaps/snaps\"\n", 1)
		main += "\n" + strings.ReplaceAll(fnBody, "{{FN}}", "callDirect")
		main = strings.ReplaceAll(main, "{{PKG}}", pkg)
		if err := os.WriteFile(filepath.Join(dir, "c11_test.go"), []byte(main), 0o644); err != nil {
			return err
		}
		os.WriteFile(filepath.Join(dir, "other_test.go"),
			[]byte(strings.NewReplacer("{{PKG}}", pkg, "{{FN}}", "callOther", "{{WHERE}}", "helper in another _test.go file").Replace(calls)+
				"\n// viaOther reaches the non-test helper callPlain through a frame of this test file.\nfunc viaOther(t *testing.T, cb c11lib.Combo) { callPlain(t, cb) }\n"), 0o644)
		os.WriteFile(filepath.Join(dir, "dotted.v2_test.go"),
			[]byte(strings.NewReplacer("{{PKG}}", pkg, "{{FN}}", "callDotted", "{{WHERE}}", "helper in a test file whose name contains a dot").Replace(calls)), 0o644)
		os.WriteFile(filepath.Join(dir, "plain.go"),
			[]byte(strings.NewReplacer("{{PKG}}", pkg, "{{FN}}", "callPlain", "{{WHERE}}", "helper in a non-test file of the package").Replace(calls)), 0o644)
	}
	return nil
}

// c11Expected is the reference location function of the property statement.
func c11Expected(pkgDir, absDir string, r c11Result) string {
	cb := r.Combo
	dir := cb.Dir
	switch {
	case dir == "ABS":
		dir = absDir
	case dir == "EMPTY":
		dir = pkgDir // Dir(""): relative and empty, i.e. the test file's own directory
	case dir == "":
		dir = filepath.Join(pkgDir, "__snapshots__")
	default:
		dir = filepath.Join(pkgDir, dir)
	}
	standalone := cb.API == "ssnap" || cb.API == "sjson"
	base := cb.Filename
	if base == "" {
		if standalone {
			base = strings.ReplaceAll(r.TestName, "/", "_")
		} else if cb.Shape == "helper-other-testfile" || cb.Shape == "helper-nontest-via-other-testfile" {
			base = "other_test"
		} else if cb.Shape == "helper-dotted-testfile" {
			base = "dotted.v2_test"
		} else {
			base = "c11_test"
		}
	}
	if standalone {
		if (cb.Shape == "config-reused" || cb.Shape == "after-rejected-sjson") && (cb.API == "sjson" || cb.Ext != "") {
			// the Config's earlier MatchStandaloneJSON call of the same test took _1 of the same file pattern
			// (with an explicit Ext both standalone entry points share <name>_%d.snap<Ext>)
			base += "_2"
		} else {
			base += "_1"
		}
	}
	ext := cb.Ext
	if ext == "" && cb.API == "sjson" {
		ext = ".json"
	}
	return filepath.Join(dir, base+".snap"+ext)
}

func runC11(tier, scratch, replay string, nworkers int) *merged {
	m := newMerged()
	m.rule = "Dir {unset, d, d/e, d_%d, absolute} x Filename {unset, custom, api/users, case_%d} x Ext x 5 APIs x 14 call shapes (after a rejected standalone call of the same test, helper in a test file with a dotted name, direct, closure, helper in the same / another test file, in a non-test file, in another package, 40/70 frames deep, subtest, goroutine, through a Config used before) looped inside the real test binary (executed twice: create, then update with a changed value), " +
		"x package depth {root, sub, sub/deep} x build {plain, -trimpath flag, -trimpath via GOFLAGS} x cwd changed (plain) x GOROOT set/unset; non-trivial = distinct (run, combination) pairs"
	m.assumptions = append(m.assumptions, "with -trimpath the binary is run from its package directory, as go test does (the documented limitation -trimpath + foreign cwd is excluded)")
	root := filepath.Join(scratch, "c11", "e3mod")
	if err := c11WriteModule(root); err != nil {
		m.harnessErrs = append(m.harnessErrs, err.Error())
		return m
	}
	absDir := filepath.Join(scratch, "c11", "absdir")
	cwdDir := filepath.Join(scratch, "c11", "cwdtarget")
	os.MkdirAll(absDir, 0o755)
	os.MkdirAll(cwdDir, 0o755)
	var runs []c11Run
	if replay != "" {
		b, _ := os.ReadFile(replay)
		var rf struct {
			Case c11Run `json:"case"`
		}
		if err := json.Unmarshal(b, &rf); err != nil {
			fatal(2, "replay: %v", err)
		}
		runs = []c11Run{rf.Case}
	} else {
		for _, depth := range []string{"", "sub", "sub/deep"} {
			for _, gr := range []bool{false, true} {
				all := []c11Run{{Depth: depth, Build: "plain", GOROOT: gr}, {Depth: depth, Build: "plain", Chdir: true, GOROOT: gr},
					{Depth: depth, Build: "trimpath-flag", GOROOT: gr}, {Depth: depth, Build: "trimpath-goflags", GOROOT: gr}}
				if !gr {
					// GOFLAGS that mention -trimpath without enabling it: the build is not trimmed, the working directory is foreign
					all = append(all, c11Run{Depth: depth, Build: "plain", Chdir: true, Goflags: "-mod=mod -trimpath=false"}, c11Run{Depth: depth, Build: "plain", Chdir: true, Goflags: "-trimpath=0 -count=1"})
				}
				for i, r := range all {
					// quick: the full matrix at the module root, a diagonal of it in the nested packages
					if tier == "quick" && r.Goflags != "" && !(depth == "" && strings.HasPrefix(r.Goflags, "-mod") || depth == "sub" && strings.HasPrefix(r.Goflags, "-trimpath=0")) {
						continue
					}
					if tier == "quick" && depth != "" && r.Goflags == "" && !((depth == "sub") == (i%2 == 0) && gr == (i < 2) || r.Build == "trimpath-flag" && gr) {
						continue
					}
					runs = append(runs, r)
				}
			}
		}
	}
	// build the binaries that are needed
	type bkey struct{ depth, build string }
	bins := map[bkey]string{}
	var bmu sync.Mutex
	var wg sync.WaitGroup
	need := map[bkey]bool{}
	for _, r := range runs {
		need[bkey{r.Depth, r.Build}] = true
	}
	first := true
	for k := range need {
		k := k
		build := func() {
			defer wg.Done()
			out := filepath.Join(scratch, "c11", fmt.Sprintf("bin-%s-%s.test", strings.ReplaceAll(k.depth, "/", "_"), k.build))
			args := append([]string{"test", "-c", "-vet=off", "-o", out}, coverBuildArgs()...)
			env := goEnv()
			switch k.build {
			case "trimpath-flag":
				args = append(args, "-trimpath")
			case "trimpath-goflags":
				env = append(env, "GOFLAGS=-mod=mod -trimpath")
			}
			args = append(args, ".")
			cmd := exec.Command("go", args...)
			cmd.Dir = filepath.Join(root, k.depth)
			cmd.Env = env
			if b, err := cmd.CombinedOutput(); err != nil {
				bmu.Lock()
				m.harnessErrs = append(m.harnessErrs, fmt.Sprintf("C11 build %v failed: %v\n%s", k, err, b))
				bmu.Unlock()
				return
			}
			bmu.Lock()
			bins[k] = out
			bmu.Unlock()
		}
		wg.Add(1)
		if first {
			build()
			first = false
		} else {
			go build()
		}
	}
	wg.Wait()
	if len(m.harnessErrs) > 0 {
		return m
	}
	goroot := ""
	if out, err := exec.Command("go", "env", "GOROOT").Output(); err == nil {
		goroot = strings.TrimSpace(string(out))
	}
	m.bounds["runs"] = len(runs)
	// runs of one depth share the package directory (observed for new files): run them sequentially per depth, depths in parallel
	byDepth := map[string][]c11Run{}
	for _, r := range runs {
		byDepth[r.Depth] = append(byDepth[r.Depth], r)
	}
	var mu sync.Mutex
	var wg2 sync.WaitGroup
	for depth, rs := range byDepth {
		wg2.Add(1)
		// sequentially: every run observes the whole module tree for new files
		func(depth string, rs []c11Run) {
			defer wg2.Done()
			for ri, r := range rs {
				pkgDir := filepath.Join(root, depth)
				outFile := filepath.Join(scratch, "c11", fmt.Sprintf("results-%s-%d.jsonl", strings.ReplaceAll(depth, "/", "_"), ri))
				os.Remove(outFile)
				covArgs, covPath := coverRunArg(filepath.Join(scratch, "c11"))
				cmd := exec.Command("timeout", append([]string{"-k", "5", "300", bins[bkey{r.Depth, r.Build}], "-test.count", "2", "-test.timeout", "280s", "-test.run", "^TestC11$"}, covArgs...)...)
				cmd.Dir = pkgDir
				env := []string{"PATH=" + os.Getenv("PATH"), "HOME=" + os.Getenv("HOME"), "NO_COLOR=1", "C11_OUT=" + outFile, "C11_ROOT=" + filepath.Join(scratch, "c11"), "C11_ABS=" + absDir}
				if r.Chdir {
					env = append(env, "C11_CWD="+cwdDir)
				}
				if r.GOROOT {
					env = append(env, "GOROOT="+goroot)
				}
				if r.Build == "trimpath-goflags" {
					env = append(env, "GOFLAGS=-trimpath")
				}
				if r.Goflags != "" {
					env = append(env, "GOFLAGS="+r.Goflags)
				}
				cmd.Env = env
				outb, err := cmd.CombinedOutput()
				coverMerge(covPath)
				f, ferr := os.Open(outFile)
				mu.Lock()
				m.counters["runs_of_real_binary"]++
				if ferr != nil {
					m.harnessErrs = append(m.harnessErrs, fmt.Sprintf("C11 run %+v produced no results (%v): %s", r, err, tail(string(outb), 1500)))
					mu.Unlock()
					continue
				}
				class := ""
				if r.Build == "trimpath-flag" && r.GOROOT {
					class = "K8-trimpath-misdetected-when-GOROOT-set"
				}
				sc := bufio.NewScanner(f)
				sc.Buffer(nil, 1<<22)
				n := 0
				for sc.Scan() {
					var res c11Result
					if json.Unmarshal(sc.Bytes(), &res) != nil {
						continue
					}
					n++
					if r.Combo != nil && res.Combo.Idx != *r.Combo {
						continue
					}
					m.counters["evaluations"]++
					m.counters["traces"]++
					m.counters["transitions"]++
					cs := r
					idx := res.Combo.Idx
					cs.Combo = &idx
					cb, _ := json.Marshal(cs)
					m.set("nontrivial")[hash64(string(cb), fmt.Sprint(res.Phase))] = struct{}{}
					want := c11Expected(pkgDir, absDir, res)
					if res.Phase == 2 {
						// the update execution: the changed value lands in the file of the first execution, nothing new appears anywhere
						if res.Updated && len(res.Created) == 0 && !res.Failed {
							m.outcomes["updated-in-place"]++
							continue
						}
						m.outcomes["update-mislocated"]++
						m.viol(class, fmt.Sprintf("run %+v, %s %s Dir=%q Filename=%q Ext=%q in %s: second execution with a changed value and Update(true): file %s holds the new value = %v, new files %v (test failed=%v)",
							r, res.Combo.API, res.Combo.Shape, res.Combo.Dir, res.Combo.Filename, res.Combo.Ext, res.TestName, want, res.Updated, res.Created, res.Failed), cs)
						continue
					}
					m.set("states")[hash64(want, r.Build)] = struct{}{}
					if len(m.samples) < 5 {
						sb, _ := json.Marshal(map[string]any{"run": r, "result": res, "expected": want})
						m.samples = append(m.samples, sb)
					}
					if len(res.Created) == 1 && res.Created[0] == want && !res.Failed {
						m.outcomes["located"]++
						continue
					}
					m.outcomes["mislocated"]++
					m.viol(class, fmt.Sprintf("run %+v, %s %s Dir=%q Filename=%q Ext=%q in %s: expected exactly one new file %s, the call created %v (test failed=%v)",
						r, res.Combo.API, res.Combo.Shape, res.Combo.Dir, res.Combo.Filename, res.Combo.Ext, res.TestName, want, res.Created, res.Failed), cs)
				}
				f.Close()
				if n == 0 {
					m.harnessErrs = append(m.harnessErrs, fmt.Sprintf("C11 run %+v: empty results: %s", r, tail(string(outb), 1500)))
				}
				mu.Unlock()
			}
		}(depth, rs)
	}
	wg2.Wait()
	return m
}
