package main

import (
	"bytes"
	"encoding/json"
	"fmt"
	"hash/fnv"
	"os"
	"os/exec"
	"path/filepath"
	"sort"
	"strings"
	"sync"
	"time"
)

// Engine E3 (DESIGN §5.3): the real `go test` runner over a bounded
// program x flag space. A small data-driven module is generated in the scratch
// directory (replace => /repo, so it is built from the current working tree,
// uninstrumented), compiled once per worker, and its test binary is run once
// per cell. The oracle for "ran / did not run" is the trace file written by the
// test bodies themselves.

type e3Call struct {
	API string `json:"api"`
	Cfg string `json:"cfg"`
	Val string `json:"val,omitempty"`
}

type e3Sub struct {
	Name     string   `json:"name"`
	Skip     string   `json:"skip,omitempty"`
	Calls    []e3Call `json:"calls"`
	Parallel bool     `json:"parallel,omitempty"`
	Subs     []e3Sub  `json:"subs,omitempty"`
}

type e3Test struct {
	Skip  string   `json:"skip,omitempty"`
	Calls []e3Call `json:"calls"`
	Subs  []e3Sub  `json:"subs,omitempty"`
}

type e3Spec map[string]e3Test

// test functions of the fixed module: file -> function names
var e3Files = map[string][]string{
	"a_test.go": {"TestA", "TestAB", "TestSub", "Test1", "FuzzA"},
	"b_test.go": {"TestB", "TestNoSnap"},
	// a test file whose own name contains ".snap": its snapshot file is c.snapshot_test.snap
	"c.snapshot_test.go": {"TestC"},
}

type e3Worker struct {
	id  int
	dir string // module directory (package directory)
	bin string
}

func e3Template(name string) string {
	b, err := os.ReadFile(filepath.Join(verifRoot, "e3", name))
	if err != nil {
		fatal(2, "e3 template: %v", err)
	}
	return string(b)
}

// e3WriteModule generates the module sources in dir.
func e3WriteModule(dir string) error {
	if err := os.MkdirAll(dir, 0o755); err != nil {
		return err
	}
	gomod := fmt.Sprintf("module e3mod\n\ngo 1.22\n\nrequire github.com/gkampitakis/go-snaps v0.0.0\n\nreplace github.com/gkampitakis/go-snaps => %s\n", repoRoot)
	// carry over the library's own requirements so that the build resolves offline
	if b, err := os.ReadFile(filepath.Join(repoRoot, "go.mod")); err == nil {
		in := false
		var req []string
		for _, l := range strings.Split(string(b), "\n") {
			t := strings.TrimSpace(l)
			if strings.HasPrefix(t, "require (") {
				in = true
				continue
			}
			if in && t == ")" {
				in = false
				continue
			}
			if in && t != "" {
				req = append(req, "\t"+t)
			}
		}
		if len(req) > 0 {
			gomod += "\nrequire (\n" + strings.Join(req, "\n") + "\n)\n"
		}
	}
	if err := os.WriteFile(filepath.Join(dir, "go.mod"), []byte(gomod), 0o644); err != nil {
		return err
	}
	if b, err := os.ReadFile(filepath.Join(repoRoot, "go.sum")); err == nil {
		os.WriteFile(filepath.Join(dir, "go.sum"), b, 0o644)
	}
	os.WriteFile(filepath.Join(dir, "interp.go"), []byte(e3Template("interp.go.tmpl")), 0o644)
	os.WriteFile(filepath.Join(dir, "main_test.go"), []byte(e3Template("main_test.go.tmpl")), 0o644)
	tf := e3Template("testfile.go.tmpl")
	for file, fns := range e3Files {
		sfx := strings.ToUpper(file[:1])
		var tests strings.Builder
		for _, fn := range fns {
			if strings.HasPrefix(fn, "Fuzz") {
				fmt.Fprintf(&tests, "func %s(f *testing.F) {\n\tf.Add(\"seed\")\n\tf.Fuzz(func(t *testing.T, s string) { run%s(t, t.Name()) })\n}\n\n", fn, sfx)
			} else {
				fmt.Fprintf(&tests, "func %s(t *testing.T) { run%s(t, t.Name()) }\n\n", fn, sfx)
			}
		}
		// functions of the OTHER files, as text inside a raw string and inside a block comment
		var golden, commented strings.Builder
		for other, ofns := range e3Files {
			if other == file {
				continue
			}
			for i, fn := range ofns {
				if strings.HasPrefix(fn, "Fuzz") {
					continue
				}
				if i%2 == 0 {
					fmt.Fprintf(&golden, "func %s(t *testing.T) { run(t) }\n", fn)
				} else {
					fmt.Fprintf(&commented, "func %s(t *testing.T) { run(t) }\n", fn)
				}
			}
		}
		src := strings.NewReplacer("{{FILE}}", file, "{{SFX}}", sfx, "{{TESTS}}", tests.String(), "{{GOLDEN}}", golden.String(), "{{COMMENTED}}", commented.String()).Replace(tf)
		if err := os.WriteFile(filepath.Join(dir, file), []byte(src), 0o644); err != nil {
			return err
		}
	}
	return nil
}

func e3Build(dir string, extraArgs ...string) (string, error) {
	bin := filepath.Join(dir, "e3.test")
	args := append([]string{"test", "-c", "-vet=off", "-o", bin}, extraArgs...)
	args = append(args, coverBuildArgs()...)
	args = append(args, ".")
	cmd := exec.Command("go", args...)
	cmd.Dir = dir
	cmd.Env = goEnv()
	if b, err := cmd.CombinedOutput(); err != nil {
		return "", fmt.Errorf("e3 build failed: %v\n%s", err, b)
	}
	return bin, nil
}

func e3Workers(scratch string, n int) ([]*e3Worker, error) {
	ws := make([]*e3Worker, n)
	errs := make([]error, n)
	var wg sync.WaitGroup
	for i := 0; i < n; i++ {
		wg.Add(1)
		go func(i int) {
			defer wg.Done()
			dir := filepath.Join(scratch, "e3", fmt.Sprintf("w%d", i), "e3mod")
			if err := e3WriteModule(dir); err != nil {
				errs[i] = err
				return
			}
			bin, err := e3Build(dir)
			if err != nil {
				errs[i] = err
				return
			}
			ws[i] = &e3Worker{id: i, dir: dir, bin: bin}
		}(i)
		if i == 0 {
			wg.Wait() // first build warms the cache for the others
		}
	}
	wg.Wait()
	for _, e := range errs {
		if e != nil {
			return nil, e
		}
	}
	return ws, nil
}

type e3RunResult struct {
	stdout string
	trace  []string
	exit   int
}

// run executes the test binary once.
func (w *e3Worker) run(spec e3Spec, runPat string, count int, env map[string]string) e3RunResult {
	sb, _ := json.Marshal(spec)
	trace := filepath.Join(filepath.Dir(w.dir), "trace.txt")
	os.Remove(trace)
	args := []string{"-test.count", fmt.Sprint(count), "-test.timeout", "60s"}
	covArgs, covPath := coverRunArg(filepath.Dir(w.dir))
	args = append(args, covArgs...)
	defer coverMerge(covPath)
	if runPat != "" {
		args = append(args, "-test.run", runPat)
	}
	cmd := exec.Command("timeout", append([]string{"-k", "5", "90", w.bin}, args...)...)
	cmd.Dir = w.dir
	cmd.Env = []string{"PATH=" + os.Getenv("PATH"), "HOME=" + os.Getenv("HOME"), "NO_COLOR=1", "E3_SPEC=" + string(sb), "E3_TRACE=" + trace}
	for k, v := range env {
		cmd.Env = append(cmd.Env, k+"="+v)
	}
	var out bytes.Buffer
	cmd.Stdout = &out
	cmd.Stderr = &out
	err := cmd.Run()
	r := e3RunResult{stdout: out.String()}
	if err != nil {
		r.exit = 1
		if ee, ok := err.(*exec.ExitError); ok {
			r.exit = ee.ExitCode()
		}
	}
	if b, err := os.ReadFile(trace); err == nil {
		r.trace = strings.Split(strings.TrimSpace(string(b)), "\n")
	}
	return r
}

// snapshot of a directory tree: relative path -> content
type e3Tree map[string]string

func e3ReadTree(root string) e3Tree {
	t := e3Tree{}
	filepath.Walk(root, func(p string, info os.FileInfo, err error) error {
		if err != nil || info.IsDir() {
			return nil
		}
		rel, _ := filepath.Rel(root, p)
		b, _ := os.ReadFile(p)
		t[rel] = string(b)
		return nil
	})
	return t
}

func e3WriteTree(root string, t e3Tree) {
	os.RemoveAll(root)
	os.MkdirAll(root, 0o755)
	for rel, data := range t {
		p := filepath.Join(root, rel)
		os.MkdirAll(filepath.Dir(p), 0o755)
		os.WriteFile(p, []byte(data), 0o644)
	}
}

type e3Entry struct{ ID, Body string }

// e3Parse: tolerant structural reader of the documented file format.
func e3Parse(data string) ([]e3Entry, error) {
	var out []e3Entry
	if data == "" {
		return out, nil
	}
	data = strings.ReplaceAll(data, "\r\n", "\n") // a CR before a LF is a line end, not content (no E3 value holds one)
	lines := strings.Split(data, "\n")
	if strings.HasSuffix(data, "\n") {
		lines = lines[:len(lines)-1]
	}
	for i := 0; i < len(lines); {
		l := lines[i]
		if l == "" {
			i++
			continue
		}
		if !strings.HasPrefix(l, "[") || !strings.HasSuffix(l, "]") {
			return out, fmt.Errorf("line %d: expected header, found %q", i+1, l)
		}
		id := l[1 : len(l)-1]
		i++
		var body []string
		closed := false
		for i < len(lines) {
			if lines[i] == "---" {
				closed = true
				i++
				break
			}
			body = append(body, lines[i])
			i++
		}
		if !closed {
			return out, fmt.Errorf("entry %q not terminated", id)
		}
		out = append(out, e3Entry{id, strings.Join(body, "\n")})
	}
	return out, nil
}

func e3Render(es []e3Entry) string {
	var b strings.Builder
	for _, e := range es {
		fmt.Fprintf(&b, "\n[%s]\n%s\n---\n", e.ID, e.Body)
	}
	return b.String()
}

type e3Summary struct {
	present  bool
	counts   map[string]int
	obsFiles []string
	obsTests []string
}

func e3ParseSummary(out string) e3Summary {
	s := e3Summary{counts: map[string]int{}}
	section := ""
	for _, l := range strings.Split(out, "\n") {
		l = strings.TrimSpace(l)
		if strings.Contains(l, "Snapshot Summary") {
			s.present = true
			continue
		}
		if strings.Contains(l, " snapshot") {
			f := strings.Fields(l)
			for i := 0; i+1 < len(f); i++ {
				var n int
				if _, err := fmt.Sscanf(f[i], "%d", &n); err != nil || !strings.HasPrefix(f[i+1], "snapshot") {
					continue
				}
				rest := f[i+2:]
				if len(rest) == 1 {
					s.counts[rest[0]] += n
					section = ""
				} else if len(rest) == 2 {
					section = strings.TrimSuffix(rest[0], "s")
				}
				break
			}
			continue
		}
		if i := strings.Index(l, "• "); i >= 0 && section != "" {
			item := l[i+len("• "):]
			if section == "file" {
				s.obsFiles = append(s.obsFiles, filepath.Base(item))
			} else {
				s.obsTests = append(s.obsTests, item)
			}
		}
	}
	sort.Strings(s.obsFiles)
	sort.Strings(s.obsTests)
	return s
}

func hash64(parts ...string) uint64 {
	h := fnv.New64a()
	for _, p := range parts {
		h.Write([]byte(p))
		h.Write([]byte{0})
	}
	return h.Sum64()
}

func (m *merged) set(name string) map[uint64]struct{} {
	s := m.sets[name]
	if s == nil {
		s = map[uint64]struct{}{}
		m.sets[name] = s
	}
	return s
}

func (m *merged) viol(class, msg string, cs any) {
	m.violCounts[class]++
	if len(m.violations[class]) < 5 {
		b, _ := json.Marshal(cs)
		m.violations[class] = append(m.violations[class], Violation{Class: class, Msg: msg, Case: b})
	}
}

func runE3(p *propInfo, tier string, seed int, scratch, replay string, shardOverride int) *merged {
	n := 8
	if shardOverride > 0 {
		n = shardOverride
	}
	if replay != "" {
		n = 1
	}
	start := time.Now()
	_ = start
	switch p.id {
	case "C08":
		return runC08(tier, scratch, replay, n)
	case "C11":
		return runC11(tier, scratch, replay, n)
	case "C05":
		return runC05E3(tier, scratch, replay, n)
	case "C07":
		return runC07E3(tier, scratch, replay, n)
	}
	m := newMerged()
	m.harnessErrs = append(m.harnessErrs, "no E3 driver for "+p.id)
	return m
}

func warmE3(scratch string) error {
	dir := filepath.Join(scratch, "e3warm", "e3mod")
	if err := e3WriteModule(dir); err != nil {
		return err
	}
	_, err := e3Build(dir)
	return err
}

// e3Parallel runs f over cells on the workers (cells dealt round-robin).
func e3Parallel[T any](ws []*e3Worker, cells []T, f func(w *e3Worker, c T)) {
	var wg sync.WaitGroup
	for wi, w := range ws {
		wg.Add(1)
		go func(wi int, w *e3Worker) {
			defer wg.Done()
			for i := wi; i < len(cells); i += len(ws) {
				f(w, cells[i])
			}
		}(wi, w)
	}
	wg.Wait()
}
