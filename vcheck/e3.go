package main

func runE3(p *propInfo, tier string, seed int, scratch, replay string, shardOverride int) *merged {
	m := newMerged()
	m.harnessErrs = append(m.harnessErrs, "E3 not built yet")
	return m
}

func warmE3(scratch string) error { return nil }
