package main

import (
	"bufio"
	"fmt"
	"os"
	"path/filepath"
	"sort"
	"strings"
	"sync"
)

// Statement coverage of the library under the checks (a diagnostic, not a verdict): with VERIF_COVERDIR set the
// driver and E3 binaries are built with -cover for the library packages, every process writes a profile, the
// profiles are merged (mode set: union) into $VERIF_COVERDIR/<prop>.cover. tools/coverage.sh turns the union over
// all properties into the list of library statements that NO check executes — where a change cannot be noticed.

const coverPkgs = "github.com/gkampitakis/go-snaps/snaps,github.com/gkampitakis/go-snaps/match,github.com/gkampitakis/go-snaps/match/internal/yaml,github.com/gkampitakis/go-snaps/internal/colors,github.com/gkampitakis/go-snaps/internal/difflib"

var (
	coverMu   sync.Mutex
	coverSet  = map[string]bool{} // block -> executed
	coverSeq  int
	coverDir_ = os.Getenv("VERIF_COVERDIR")
)

func coverOn() bool { return coverDir_ != "" }

func coverBuildArgs() []string {
	if !coverOn() {
		return nil
	}
	return []string{"-cover", "-covermode=set", "-coverpkg=" + coverPkgs}
}

// coverRunArg returns the flag for one process run and the profile path to merge afterwards.
func coverRunArg(scratch string) ([]string, string) {
	if !coverOn() {
		return nil, ""
	}
	coverMu.Lock()
	coverSeq++
	p := filepath.Join(scratch, fmt.Sprintf("cover-%d.out", coverSeq))
	coverMu.Unlock()
	return []string{"-test.coverprofile", p}, p
}

func coverMerge(path string) {
	if path == "" {
		return
	}
	f, err := os.Open(path)
	if err != nil {
		return
	}
	defer os.Remove(path)
	defer f.Close()
	sc := bufio.NewScanner(f)
	sc.Buffer(nil, 1<<20)
	coverMu.Lock()
	defer coverMu.Unlock()
	for sc.Scan() {
		l := sc.Text()
		if strings.HasPrefix(l, "mode:") {
			continue
		}
		i := strings.LastIndexByte(l, ' ')
		if i < 0 {
			continue
		}
		block, cnt := l[:i], l[i+1:]
		if cnt != "0" {
			coverSet[block] = true
		} else if _, ok := coverSet[block]; !ok {
			coverSet[block] = false
		}
	}
}

func coverWrite(prop string) {
	if !coverOn() {
		return
	}
	os.MkdirAll(coverDir_, 0o755)
	var lines []string
	for b, hit := range coverSet {
		n := "0"
		if hit {
			n = "1"
		}
		lines = append(lines, b+" "+n)
	}
	sort.Strings(lines)
	os.WriteFile(filepath.Join(coverDir_, prop+".cover"), []byte("mode: set\n"+strings.Join(lines, "\n")+"\n"), 0o644)
}
