// vcheck: one CLI for all property checks (see /verif/DESIGN.md §5, §8).
//
//	vcheck <Cxx> --tier quick|thorough
//	vcheck <Cxx> --replay <file>
//
// exit 0 = held on everything explored (KNOWN-FINDING lines possible),
// exit 1 = unlisted violation (VIOLATION line), exit 2 = harness error.
package main

import (
	"encoding/json"
	"flag"
	"fmt"
	"os"
	"os/exec"
	"path/filepath"
	"runtime"
	"strconv"
	"strings"
	"time"
)

type propInfo struct {
	id        string
	engine    string // "inproc" (E1/E2 inside an injected test binary) or "e3"
	pkg       string // inject package for inproc
	level     string // evidence level
	racePass  bool   // additionally run the free-running -race pass
	disturb   bool   // additionally run the enumeration with unrelated calls interposed before every Match* call
	shardsQ   int
	shardsT   int
	timeoutQ  time.Duration
	timeoutT  time.Duration
	needsE3   bool     // inproc decides, E3 twin adds runs of the real binary
	envMatrix []string // real UPDATE_SNAPS values, one group of processes per value
}

var baseAssume = []string{
	"the Go toolchain, the kernel file system (tmpfs scratch) and the dependencies in the module cache behave as they do in this sandbox",
	"exploration is bounded: only the alphabets and bounds listed under coverage.bounds are covered",
}

var props = map[string]*propInfo{}

func reg(p *propInfo) {
	if p.shardsQ == 0 {
		p.shardsQ = 8
	}
	if p.shardsT == 0 {
		p.shardsT = 16
	}
	if p.timeoutQ == 0 {
		p.timeoutQ = 4 * time.Minute
	}
	if p.timeoutT == 0 {
		p.timeoutT = 40 * time.Minute
	}
	props[p.id] = p
}

var updMatrix = []string{"", "true", "clean", "yes"}

// C05 enumerates more representatives of "any other string": spellings a lenient parser would accept
var updMatrixWide = []string{"", "true", "clean", "yes", "TRUE", "1", "true ", "CLEAN", "t", "false", "always", "force"}

func init() {
	for _, id := range []string{"C01", "C02", "C03", "C04", "C16", "C17", "C18", "C19"} {
		// all but C03 (whose state key includes the registry) repeat their enumeration with unrelated calls interposed
		reg(&propInfo{id: id, engine: "inproc", pkg: "snaps", level: "model_checking", disturb: id != "C03", racePass: id == "C18"})
	}
	// C09: "in every other mode no entry or file is removed" — other modes include the spellings a lenient boolean parser accepts
	reg(&propInfo{id: "C09", engine: "inproc", pkg: "snaps", level: "model_checking", envMatrix: append(append([]string{}, updMatrix...), "1", "TRUE", "t"), shardsQ: 2, shardsT: 4})
	reg(&propInfo{id: "C10", engine: "inproc", pkg: "snaps", level: "model_checking", envMatrix: updMatrix, shardsQ: 2, shardsT: 4})
	reg(&propInfo{id: "C07", engine: "inproc", pkg: "snaps", level: "model_checking", envMatrix: updMatrix, shardsQ: 2, shardsT: 4, needsE3: true})
	reg(&propInfo{id: "C05", engine: "inproc", pkg: "snaps", level: "model_checking", needsE3: true, envMatrix: updMatrixWide, shardsQ: 1, shardsT: 1})
	reg(&propInfo{id: "C06", engine: "inproc", pkg: "snaps", level: "model_checking", racePass: true, shardsQ: 16})
	reg(&propInfo{id: "C12", engine: "inproc", pkg: "snaps", level: "model_checking", racePass: true})
	reg(&propInfo{id: "C20", engine: "inproc", pkg: "snaps", level: "model_checking", racePass: true, envMatrix: updMatrix, shardsQ: 2, shardsT: 4})
	reg(&propInfo{id: "C13", engine: "inproc", pkg: "snaps", level: "exploration"})
	reg(&propInfo{id: "C14", engine: "inproc", pkg: "snaps", level: "exploration", disturb: true, racePass: true})
	reg(&propInfo{id: "C15", engine: "inproc", pkg: "snaps", level: "exploration"})
	reg(&propInfo{id: "C08", engine: "e3", level: "model_checking"})
	reg(&propInfo{id: "C11", engine: "e3", level: "model_checking"})
}

func goEnv() []string {
	env := os.Environ()
	env = append(env, "GOFLAGS=-mod=mod", "GOPROXY=off", "GOSUMDB=off", "GOTOOLCHAIN=local")
	return env
}

func fatal(code int, f string, a ...any) {
	fmt.Fprintf(os.Stderr, "vcheck: "+f+"\n", a...)
	os.Exit(code)
}

func mkScratch() string {
	base := "/dev/shm"
	if st, err := os.Stat(base); err != nil || !st.IsDir() {
		base = os.TempDir()
	}
	d, err := os.MkdirTemp(base, "vcheck-")
	if err != nil {
		d, err = os.MkdirTemp("", "vcheck-")
		if err != nil {
			fatal(2, "cannot create scratch: %v", err)
		}
	}
	return d
}

func repoStatus() string {
	out, _ := exec.Command("git", "-C", repoRoot, "status", "--porcelain").Output()
	return string(out)
}

func main() {
	if len(os.Args) < 2 {
		fatal(2, "usage: vcheck <Cxx> --tier quick|thorough | --replay <file>")
	}
	if v := os.Getenv("VERIF_REPO"); v != "" {
		setRepoRoot(v)
	}
	id := os.Args[1]
	if id == "warm" {
		os.Exit(warm())
	}
	fs := flag.NewFlagSet("vcheck", flag.ExitOnError)
	tier := fs.String("tier", envOr("VERIF_TIER", "quick"), "quick|thorough")
	replay := fs.String("replay", "", "replay file")
	keep := fs.Bool("keep", false, "keep scratch directory")
	evdir := fs.String("evidence-dir", filepath.Join(verifRoot, "evidence"), "where evidence is written")
	shards := fs.Int("shards", 0, "override shard count")
	fs.Parse(os.Args[2:])
	p, ok := props[id]
	if !ok {
		fatal(2, "unknown property %q", id)
	}
	if *tier != "quick" && *tier != "thorough" {
		fatal(2, "bad tier %q", *tier)
	}
	if *replay != "" {
		if abs, err := filepath.Abs(*replay); err == nil {
			*replay = abs
		}
	}
	seed, _ := strconv.Atoi(envOr("VERIF_SEED", "0"))
	start := time.Now()
	scratch := mkScratch()
	if !*keep {
		defer os.RemoveAll(scratch)
	}
	before := repoStatus()
	var m *merged
	switch p.engine {
	case "inproc":
		m = runInproc(p, *tier, seed, scratch, *replay, *shards)
	case "e3":
		m = runE3(p, *tier, seed, scratch, *replay, *shards)
	}
	if after := repoStatus(); after != before {
		if !*keep {
			os.RemoveAll(scratch)
		}
		fatal(2, "harness error: /repo working tree changed during the check:\n%s", after)
	}
	coverWrite(p.id)
	code := finish(p, *tier, seed, m, time.Since(start), *evdir, *replay != "")
	if !*keep {
		os.RemoveAll(scratch)
	}
	os.Exit(code)
}

func envOr(k, d string) string {
	if v := os.Getenv(k); v != "" {
		return v
	}
	return d
}

func setRepoRoot(v string) { repoRoot = v }

func nshards(p *propInfo, tier string, override int) int {
	n := p.shardsQ
	if tier == "thorough" {
		n = p.shardsT
	}
	if override > 0 {
		n = override
	}
	if c := runtime.NumCPU(); n > c {
		n = c
	}
	if n < 1 {
		n = 1
	}
	return n
}

// buildTestBinary compiles the injected test binary of one package.
func buildTestBinary(scratch, pkg string, race bool) (string, error) {
	ov, err := buildOverlay(scratch, overlaySpec{instrument: true, injectPkgs: []string{pkg}})
	if err != nil {
		return "", err
	}
	out := filepath.Join(scratch, pkg+".test")
	args := []string{"test", "-c", "-tags", "verif", "-overlay", ov, "-vet=off", "-o", out}
	if race {
		out = filepath.Join(scratch, pkg+".race.test")
		args = []string{"test", "-c", "-race", "-tags", "verif", "-overlay", ov, "-vet=off", "-o", out}
	}
	if !race {
		args = append(args, coverBuildArgs()...)
	}
	args = append(args, "./"+pkgDirs[pkg])
	cmd := exec.Command("go", args...)
	cmd.Dir = repoRoot
	cmd.Env = goEnv()
	b, err := cmd.CombinedOutput()
	if err != nil {
		return "", fmt.Errorf("build of instrumented %s failed: %v\n%s", pkg, err, b)
	}
	return out, nil
}

func runInproc(p *propInfo, tier string, seed int, scratch, replay string, shardOverride int) *merged {
	bin, err := buildTestBinary(scratch, p.pkg, false)
	if err != nil {
		fatal(2, "%v", err)
	}
	n := nshards(p, tier, shardOverride)
	if replay != "" {
		n = 1
	}
	to := p.timeoutQ
	if tier == "thorough" {
		to = p.timeoutT
	}
	mode := ""
	if replay != "" {
		mode = replayMode(replay)
	}
	results := runShards(bin, p, tier, seed, scratch, replay, n, to, mode)
	if p.disturb && replay == "" {
		results = append(results, runShards(bin, p, tier, seed, scratch, "", n, to, "disturb")...)
	}
	m := merge(results)
	if p.racePass && replay == "" {
		rbin, err := buildTestBinary(scratch, p.pkg, true)
		if err != nil {
			fatal(2, "%v", err)
		}
		rr := runShards(rbin, p, tier, seed, scratch, "", 1, to, "race")
		m.absorbRace(rr)
	}
	if p.needsE3 && replay == "" {
		m2 := runE3(p, tier, seed, scratch, "", shardOverride)
		m.absorb(m2)
	}
	return m
}

type shardOut struct {
	res    *ShardResult
	stdout string
	err    error
}

func runShards(bin string, p *propInfo, tier string, seed int, scratch, replay string, n int, to time.Duration, mode string) []shardOut {
	prop := p.id
	matrix := p.envMatrix
	if mode == "race" {
		matrix = nil
	}
	if replay != "" && matrix != nil {
		// a replay runs under the environment recorded in the case
		matrix = []string{replayEnv(replay)}
	}
	sub := n
	if matrix != nil {
		n = len(matrix) * sub
	}
	outs := make([]shardOut, n)
	done := make(chan int, n)
	for i := 0; i < n; i++ {
		go func(i int) {
			defer func() { done <- i }()
			wdir := filepath.Join(scratch, fmt.Sprintf("w%s%d", mode, i))
			os.MkdirAll(wdir, 0o755)
			outp := filepath.Join(scratch, fmt.Sprintf("res%s%d.json", mode, i))
			var covArgs []string
			covPath := ""
			if mode != "race" {
				covArgs, covPath = coverRunArg(scratch)
			}
			cmd := exec.Command("timeout", append([]string{"-k", "10", fmt.Sprint(int(to.Seconds()) + 30), bin,
				"-test.run", "^TestVerifDriver$", "-test.count", "1", "-test.timeout", to.String()}, covArgs...)...)
			// the working directory is deliberately much deeper than any test file's directory: a path that is
			// relative to the test file and wrongly resolved against the working directory then lands somewhere else
			cwd := filepath.Join(wdir, "cwd", "x", "y", "z")
			os.MkdirAll(cwd, 0o755)
			cmd.Dir = cwd
			env := []string{
				"PATH=" + os.Getenv("PATH"), "HOME=" + os.Getenv("HOME"), "NO_COLOR=1",
				"VERIF_PROP=" + prop, "VERIF_TIER=" + tier, fmt.Sprintf("VERIF_SHARD=%d/%d", i/max(len(matrix), 1), sub),
				"VERIF_OUT=" + outp, "VERIF_SCRATCH=" + wdir, fmt.Sprintf("VERIF_SEED=%d", seed),
				"VERIF_MODE=" + mode, "VERIF_BIN=" + bin, "GOMAXPROCS=2",
				"VERIF_DEADLINE=" + fmt.Sprint(time.Now().Add(to*8/10).Unix()),
			}
			if mode == "disturb" && (prop == "C01" || prop == "C02") {
				env = append(env, "VERIF_DISTURB_THIN=4")
			}
			if mode == "race" {
				env[len(env)-2] = "GOMAXPROCS=8"
				env = append(env, "GORACE=halt_on_error=0 log_path="+filepath.Join(scratch, "racelog"))
			}
			if replay != "" {
				env = append(env, "VERIF_REPLAY="+replay)
			}
			if matrix != nil {
				if v := matrix[i%len(matrix)]; v != "" {
					env = append(env, "UPDATE_SNAPS="+v)
				}
			}
			for _, k := range []string{"VERIF_DEBUG", "VERIF_CASEFILTER"} {
				if v := os.Getenv(k); v != "" {
					env = append(env, k+"="+v)
				}
			}
			cmd.Env = env
			b, err := cmd.CombinedOutput()
			coverMerge(covPath)
			outs[i].stdout = string(b)
			rb, rerr := os.ReadFile(outp)
			if rerr != nil {
				outs[i].err = fmt.Errorf("shard %d produced no result (%v): %s", i, err, tail(string(b), 3000))
				return
			}
			var r ShardResult
			if jerr := json.Unmarshal(rb, &r); jerr != nil {
				outs[i].err = fmt.Errorf("shard %d result unreadable: %v", i, jerr)
				return
			}
			if mode == "race" {
				// collect race detector logs
				matches, _ := filepath.Glob(filepath.Join(scratch, "racelog*"))
				for _, mfile := range matches {
					lb, _ := os.ReadFile(mfile)
					r.RaceReports = append(r.RaceReports, splitRaceReports(string(lb))...)
					os.Remove(mfile)
				}
			}
			outs[i].res = &r
			if err != nil && !r.Complete {
				outs[i].err = fmt.Errorf("shard %d died (%v): %s", i, err, tail(string(b), 3000))
			}
		}(i)
	}
	for i := 0; i < n; i++ {
		<-done
	}
	return outs
}

// replayMode: the driver mode recorded in a replay file ("disturb" or "").
func replayMode(path string) string {
	b, err := os.ReadFile(path)
	if err != nil {
		return ""
	}
	var rf struct {
		Mode string `json:"mode"`
	}
	json.Unmarshal(b, &rf)
	return rf.Mode
}

// replayEnv extracts the UPDATE_SNAPS value recorded in a replay file's case.
func replayEnv(path string) string {
	b, err := os.ReadFile(path)
	if err != nil {
		return ""
	}
	var rf struct {
		Case struct {
			Env string `json:"env"`
		} `json:"case"`
	}
	json.Unmarshal(b, &rf)
	return rf.Case.Env
}

func splitRaceReports(s string) []string {
	var out []string
	parts := strings.Split(s, "==================")
	for _, p := range parts {
		if strings.Contains(p, "DATA RACE") {
			out = append(out, strings.TrimSpace(p))
		}
	}
	return out
}

func tail(s string, n int) string {
	if len(s) <= n {
		return s
	}
	return "…" + s[len(s)-n:]
}

func warm() int {
	scratch := mkScratch()
	defer os.RemoveAll(scratch)
	for _, race := range []bool{false, true} {
		if _, err := buildTestBinary(scratch, "snaps", race); err != nil {
			fmt.Fprintln(os.Stderr, err)
			return 2
		}
	}
	if err := warmE3(scratch); err != nil {
		fmt.Fprintln(os.Stderr, err)
		return 2
	}
	return 0
}
