package main

import (
	"crypto/sha256"
	"encoding/binary"
	"encoding/hex"
	"encoding/json"
	"fmt"
	"os"
	"os/exec"
	"path/filepath"
	"sort"
	"strings"
	"time"
)

// ShardResult is what one driver process reports (written to VERIF_OUT).
type ShardResult struct {
	Prop        string             `json:"prop"`
	Tier        string             `json:"tier"`
	Shard       int                `json:"shard"`
	NShards     int                `json:"nshards"`
	Complete    bool               `json:"complete"`
	Counters    map[string]int64   `json:"counters"`
	Sets        map[string]string  `json:"sets"` // name -> file of little-endian uint64 hashes
	Outcomes    map[string]int64   `json:"outcomes"`
	Samples     []json.RawMessage  `json:"samples"`
	Violations  []Violation        `json:"violations"`
	ViolCounts  map[string]int64   `json:"viol_counts"`
	CapsHit     []string           `json:"caps_hit"`
	Exhaustive  bool               `json:"exhaustive"`
	Bounds      map[string]any     `json:"bounds"`
	Rule        string             `json:"rule"`
	Assumptions []string           `json:"assumptions"`
	Notes       []string           `json:"notes"`
	HarnessErrs []string           `json:"harness_errors"`
	Extra       map[string]any     `json:"extra"`
	RaceReports []string           `json:"race_reports"`
	Diagnostics map[string]float64 `json:"diagnostics"`
}

type Violation struct {
	Class string          `json:"class"` // name of a harness predicate, "" = unclassified
	Msg   string          `json:"msg"`
	Case  json.RawMessage `json:"case"`
	Mode  string          `json:"mode,omitempty"`
}

type merged struct {
	counters    map[string]int64
	sets        map[string]map[uint64]struct{}
	outcomes    map[string]int64
	samples     []json.RawMessage
	violations  map[string][]Violation
	violCounts  map[string]int64
	capsHit     map[string]bool
	exhaustive  bool
	bounds      map[string]any
	rule        string
	assumptions []string
	notes       []string
	harnessErrs []string
	extra       map[string]any
	raceReports []string
	raceRuns    int64
}

func newMerged() *merged {
	return &merged{counters: map[string]int64{}, sets: map[string]map[uint64]struct{}{}, outcomes: map[string]int64{},
		violations: map[string][]Violation{}, violCounts: map[string]int64{}, capsHit: map[string]bool{}, exhaustive: true,
		bounds: map[string]any{}, extra: map[string]any{}}
}

func (m *merged) add(r *ShardResult) {
	for k, v := range r.Counters {
		m.counters[k] += v
	}
	for name, path := range r.Sets {
		b, err := os.ReadFile(path)
		if err != nil {
			m.harnessErrs = append(m.harnessErrs, "missing set file "+path)
			continue
		}
		s := m.sets[name]
		if s == nil {
			s = map[uint64]struct{}{}
			m.sets[name] = s
		}
		for i := 0; i+8 <= len(b); i += 8 {
			s[binary.LittleEndian.Uint64(b[i:])] = struct{}{}
		}
	}
	for k, v := range r.Outcomes {
		m.outcomes[k] += v
	}
	if len(m.samples) < 12 {
		for _, s := range r.Samples {
			if len(m.samples) < 12 {
				m.samples = append(m.samples, s)
			}
		}
	}
	for _, v := range r.Violations {
		if len(m.violations[v.Class]) < 5 {
			m.violations[v.Class] = append(m.violations[v.Class], v)
		}
	}
	for k, v := range r.ViolCounts {
		m.violCounts[k] += v
	}
	for _, c := range r.CapsHit {
		m.capsHit[c] = true
	}
	if !r.Exhaustive {
		m.exhaustive = false
	}
	for k, v := range r.Bounds {
		m.bounds[k] = v
	}
	if r.Rule != "" {
		m.rule = r.Rule
	}
	for _, a := range r.Assumptions {
		if !contains(m.assumptions, a) {
			m.assumptions = append(m.assumptions, a)
		}
	}
	for _, a := range r.Notes {
		if !contains(m.notes, a) {
			m.notes = append(m.notes, a)
		}
	}
	m.harnessErrs = append(m.harnessErrs, r.HarnessErrs...)
	for k, v := range r.Extra {
		m.extra[k] = v
	}
}

func contains(l []string, s string) bool {
	for _, x := range l {
		if x == s {
			return true
		}
	}
	return false
}

func merge(outs []shardOut) *merged {
	m := newMerged()
	for _, o := range outs {
		if o.err != nil {
			m.harnessErrs = append(m.harnessErrs, o.err.Error())
		}
		if o.res != nil {
			m.add(o.res)
			if !o.res.Complete {
				m.harnessErrs = append(m.harnessErrs, fmt.Sprintf("shard %d did not complete: %s", o.res.Shard, tail(o.stdout, 2000)))
			}
		}
	}
	return m
}

// absorbRace merges the result of the free-running -race pass: its counters
// are kept apart, data races become violations of class "data-race".
func (m *merged) absorbRace(outs []shardOut) {
	for _, o := range outs {
		if o.err != nil {
			m.harnessErrs = append(m.harnessErrs, "race pass: "+o.err.Error())
		}
		if o.res == nil {
			continue
		}
		m.raceRuns += o.res.Counters["race_runs"]
		for _, v := range o.res.Violations {
			if len(m.violations[v.Class]) < 5 {
				m.violations[v.Class] = append(m.violations[v.Class], v)
			}
		}
		for k, v := range o.res.ViolCounts {
			m.violCounts[k] += v
		}
		seen := map[string]bool{}
		for _, rep := range o.res.RaceReports {
			cls := "data-race:" + raceSite(rep)
			if seen[cls] {
				m.violCounts[cls]++
				continue
			}
			seen[cls] = true
			m.raceReports = append(m.raceReports, rep)
			c, _ := json.Marshal(map[string]any{"race_report": rep})
			m.violations[cls] = append(m.violations[cls], Violation{Class: cls, Msg: "data race reported by the free-running -race pass: " + firstLines(rep, 12), Case: c})
			m.violCounts[cls]++
		}
		m.harnessErrs = append(m.harnessErrs, o.res.HarnessErrs...)
	}
}

// raceSite names a race by the go-snaps source lines involved (files only,
// so that a harmless line shift does not rename the class).
func raceSite(rep string) string {
	var files []string
	for _, l := range strings.Split(rep, "\n") {
		l = strings.TrimSpace(l)
		if i := strings.Index(l, "/snaps/"); i >= 0 && strings.Contains(l, ".go:") && !strings.Contains(l, "zz_verif_") {
			f := l[i+len("/snaps/"):]
			if j := strings.Index(f, ":"); j > 0 {
				f = f[:j]
			}
			if !contains(files, f) {
				files = append(files, f)
			}
		}
	}
	sort.Strings(files)
	return strings.Join(files, "+")
}

func firstLines(s string, n int) string {
	l := strings.Split(s, "\n")
	if len(l) > n {
		l = l[:n]
	}
	return strings.Join(l, "\n")
}

func (m *merged) absorb(o *merged) {
	if o == nil {
		return
	}
	for k, v := range o.counters {
		m.counters[k] += v
	}
	for k, v := range o.outcomes {
		m.outcomes[k] += v
	}
	for k, s := range o.sets {
		if m.sets[k] == nil {
			m.sets[k] = s
		} else {
			for h := range s {
				m.sets[k][h] = struct{}{}
			}
		}
	}
	for k, v := range o.violations {
		m.violations[k] = append(m.violations[k], v...)
	}
	for k, v := range o.violCounts {
		m.violCounts[k] += v
	}
	for k := range o.capsHit {
		m.capsHit[k] = true
	}
	if !o.exhaustive {
		m.exhaustive = false
	}
	for k, v := range o.bounds {
		m.bounds["e3_"+k] = v
	}
	m.harnessErrs = append(m.harnessErrs, o.harnessErrs...)
	m.samples = append(m.samples, o.samples...)
	for _, a := range o.assumptions {
		if !contains(m.assumptions, a) {
			m.assumptions = append(m.assumptions, a)
		}
	}
	for k, v := range o.extra {
		m.extra[k] = v
	}
}

// ---------------------------------------------------------------------------
// known findings

type knownFinding struct {
	ID       string `json:"id"`
	Property string `json:"property"`
	Status   string `json:"status"` // "known" | "fixed"
	Commit   string `json:"commit,omitempty"`
	Class    string `json:"class"`
	What     string `json:"what"`
	Witness  any    `json:"witness"`
}

func loadKnown() []knownFinding {
	b, err := os.ReadFile(filepath.Join(verifRoot, "known_findings.json"))
	if err != nil {
		return nil
	}
	var f struct {
		Findings []knownFinding `json:"findings"`
	}
	if err := json.Unmarshal(b, &f); err != nil {
		fatal(2, "known_findings.json unreadable: %v", err)
	}
	return f.Findings
}

// ---------------------------------------------------------------------------

func finish(p *propInfo, tier string, seed int, m *merged, wall time.Duration, evdir string, isReplay bool) int {
	known := loadKnown()
	knownByClass := map[string]knownFinding{}
	for _, k := range known {
		if k.Property == p.id && k.Status == "known" {
			knownByClass[k.Class] = k
		}
	}
	var classes []string
	for c := range m.violCounts {
		classes = append(classes, c)
	}
	for c := range m.violations {
		if _, ok := m.violCounts[c]; !ok {
			classes = append(classes, c)
			m.violCounts[c] = int64(len(m.violations[c]))
		}
	}
	sort.Strings(classes)
	code := 0
	unlisted := 0
	knownSeen := map[string]any{}
	var lines []string
	for _, c := range classes {
		if k, ok := knownByClass[c]; ok && c != "" {
			lines = append(lines, fmt.Sprintf("KNOWN-FINDING: property=%s %s: %s (%d explored cases)", p.id, k.ID, k.What, m.violCounts[c]))
			knownSeen[k.ID] = map[string]any{"class": c, "suppressed_cases": m.violCounts[c]}
			continue
		}
		unlisted += int(m.violCounts[c])
		code = 1
		vs := m.violations[c]
		if len(vs) == 0 {
			lines = append(lines, fmt.Sprintf("VIOLATION property=%s replay=none class=%s", p.id, c))
			continue
		}
		v := vs[0]
		rp := writeReplay(p, tier, c, v)
		if !isReplay && os.Getenv("VERIF_NOCONFIRM") == "" {
			confirmReplay(p, rp)
		}
		lines = append(lines, fmt.Sprintf("VIOLATION property=%s replay=%s", p.id, rp))
		fmt.Fprintf(os.Stderr, "--- %s class=%q (%d cases)\n", p.id, c, m.violCounts[c])
		for i, w := range vs {
			if i < 4 {
				fmt.Fprintf(os.Stderr, "  [%d] %s\n      case: %s\n", i+1, w.Msg, tail(string(w.Case), 600))
			}
		}
	}
	if len(m.harnessErrs) > 0 {
		for _, e := range m.harnessErrs {
			fmt.Fprintln(os.Stderr, "harness error:", e)
		}
		if code == 0 {
			code = 2
		}
	}
	for _, l := range lines {
		fmt.Println(l)
	}
	if !isReplay {
		writeEvidence(p, tier, seed, m, wall, evdir, unlisted, knownSeen)
	}
	caps := ""
	if len(m.capsHit) > 0 {
		caps = fmt.Sprintf(" caps_hit=%v", keys(m.capsHit))
	}
	fmt.Printf("%s tier=%s evaluations=%d transitions=%d states=%d exhaustive=%v%s violations=%d wall=%.1fs\n", p.id, tier,
		m.counters["evaluations"], m.counters["transitions"], m.setSize("states"), m.exhaustive && len(m.capsHit) == 0 && len(m.harnessErrs) == 0, caps, unlisted, wall.Seconds())
	return code
}

func keys(m map[string]bool) []string {
	out := []string{}
	for k := range m {
		out = append(out, k)
	}
	sort.Strings(out)
	return out
}

func (m *merged) setSize(name string) int64 { return int64(len(m.sets[name])) }

// confirmReplay re-executes the stored case in fresh processes and records in
// the replay file whether the violation reproduces on its own (it is reported
// either way: a failure that needs the state left by earlier cases is still a
// failure of the code under test, but the reader should know).
func confirmReplay(p *propInfo, path string) {
	if strings.HasPrefix(filepath.Base(path), "none") {
		return
	}
	self, err := os.Executable()
	if err != nil {
		return
	}
	reproduced := 0
	const attempts = 2
	for i := 0; i < attempts; i++ {
		cmd := exec.Command(self, p.id, "--replay", path, "--evidence-dir", os.TempDir())
		cmd.Env = append(os.Environ(), "VERIF_NOCONFIRM=1")
		out, _ := cmd.CombinedOutput()
		if strings.Contains(string(out), "VIOLATION property="+p.id) {
			reproduced++
		}
	}
	b, err := os.ReadFile(path)
	if err != nil {
		return
	}
	var rf map[string]any
	if json.Unmarshal(b, &rf) != nil {
		return
	}
	rf["reproduced_standalone"] = fmt.Sprintf("%d/%d fresh-process replays", reproduced, attempts)
	nb, _ := json.MarshalIndent(rf, "", " ")
	os.WriteFile(path, nb, 0o644)
	fmt.Fprintf(os.Stderr, "    replay %s: reproduced in %d of %d fresh processes\n", filepath.Base(path), reproduced, attempts)
}

func writeReplay(p *propInfo, tier, class string, v Violation) string {
	dir := filepath.Join(verifRoot, "replays")
	os.MkdirAll(dir, 0o755)
	h := sha256.Sum256(append([]byte(class), v.Case...))
	path := filepath.Join(dir, fmt.Sprintf("%s-%s.json", p.id, hex.EncodeToString(h[:6])))
	head := ""
	if out, err := exec.Command("git", "-C", repoRoot, "rev-parse", "HEAD").Output(); err == nil {
		head = strings.TrimSpace(string(out))
	}
	b, _ := json.MarshalIndent(map[string]any{
		"property": p.id, "tier": tier, "class": class, "message": v.Msg, "case": v.Case, "mode": v.Mode, "repo_head": head,
		"how_to_replay": fmt.Sprintf("/verif/bin/vcheck %s --replay %s", p.id, path),
	}, "", " ")
	os.WriteFile(path, b, 0o644)
	return path
}

func writeEvidence(p *propInfo, tier string, seed int, m *merged, wall time.Duration, evdir string, unlisted int, knownSeen map[string]any) {
	os.MkdirAll(evdir, 0o755)
	cov := map[string]any{}
	for k, v := range m.counters {
		cov[k] = v
	}
	cov["evaluations"] = m.counters["evaluations"]
	cov["distinct_nontrivial"] = m.setSize("nontrivial")
	cov["rule"] = m.rule
	samples := m.samples
	if samples == nil {
		samples = []json.RawMessage{}
	}
	cov["samples"] = samples
	if m.setSize("states") > 0 {
		cov["states"] = m.setSize("states")
	}
	if p.level == "model_checking" {
		cov["states"] = m.setSize("states")
		cov["transitions"] = m.counters["transitions"]
		cov["traces_validated_against_impl"] = m.counters["traces"]
	}
	for name, s := range m.sets {
		if name != "states" && name != "nontrivial" {
			cov["distinct_"+name] = len(s)
		}
	}
	cov["distinct_outcomes"] = len(m.outcomes)
	cov["outcomes"] = m.outcomes
	cov["bounds"] = m.bounds
	cov["caps_hit"] = keys(m.capsHit)
	cov["exhaustive"] = m.exhaustive && len(m.capsHit) == 0 && len(m.harnessErrs) == 0
	cov["known_findings_seen"] = knownSeen
	if len(m.notes) > 0 {
		cov["notes"] = m.notes
	}
	for k, v := range m.extra {
		cov[k] = v
	}
	if p.racePass {
		cov["race_pass"] = map[string]any{"free_running_runs": m.raceRuns, "race_reports": len(m.raceReports),
			"note": "dynamic detection on concrete free-running runs of the same thread bodies (-race); not part of the exhaustive claim"}
	}
	vc := map[string]int64{}
	for k, v := range m.violCounts {
		vc[k] = v
	}
	cov["violation_classes"] = vc
	ev := map[string]any{
		"property_id": p.id, "tier": tier, "seed": seed, "level": p.level, "coverage": cov,
		"assumptions": append(append([]string{}, baseAssume...), m.assumptions...),
		"wall_s":      float64(int(wall.Seconds()*10)) / 10, "violations": unlisted,
	}
	b, _ := json.MarshalIndent(ev, "", " ")
	if err := os.WriteFile(filepath.Join(evdir, p.id+".json"), append(b, '\n'), 0o644); err != nil {
		fmt.Fprintln(os.Stderr, "cannot write evidence:", err)
	}
}
