package main

import (
	"encoding/json"
	"fmt"
	"os"
	"path/filepath"
	"regexp"
	"sort"
	"strings"
	"sync"
)

// C08 — Clean keeps snapshots of tests that were skipped or filtered out
// (DESIGN §6 C08). Decided with the REAL test runner: what ran is read from
// the trace file the test bodies write.

type c08Cell struct {
	Program string            `json:"program"`
	Skips   map[string]string `json:"skips,omitempty"` // test name -> skip | skipf | skipnow
	Run     string            `json:"run,omitempty"`
	Env     string            `json:"env"` // UPDATE_SNAPS
	Sort    bool              `json:"sort,omitempty"`
	Count   int               `json:"count,omitempty"`
	CRLF    bool              `json:"crlf,omitempty"` // the multi-entry snapshot files have CR LF line ends (a checkout with eol=crlf)
}

func snap(cfg string) e3Call { return e3Call{API: "snap", Cfg: cfg} }

func c08Programs() map[string]e3Spec {
	return map[string]e3Spec{
		"P1-default-files": {
			"TestA": {Calls: []e3Call{snap("default"), snap("default")}, Subs: []e3Sub{{Name: "x", Calls: []e3Call{snap("default")}}, {Name: "xy", Calls: []e3Call{snap("default")}}}},
			// (a sibling whose name merely extends TestA's, with subtests of its own: TestAB/x is no descendant of TestA)
			"TestAB":       {Calls: []e3Call{snap("default")}, Subs: []e3Sub{{Name: "x", Calls: []e3Call{snap("default")}}, {Name: "y", Calls: []e3Call{snap("default")}}}},
			"TestSub":      {Calls: []e3Call{snap("default")}, Subs: []e3Sub{{Name: "sub", Calls: []e3Call{snap("default")}}, {Name: "1", Calls: []e3Call{snap("default")}}}},
			"Test1":        {Calls: []e3Call{snap("default")}},
			"FuzzA/seed#0": {Calls: []e3Call{snap("default")}},
			"TestB":        {Calls: []e3Call{snap("default")}, Subs: []e3Sub{{Name: "x", Calls: []e3Call{snap("default")}}}},
			"TestC":        {Calls: []e3Call{snap("default")}},
		},
		"P2-custom-files": {
			"TestA": {Calls: []e3Call{snap("filename")}, Subs: []e3Sub{{Name: "x", Calls: []e3Call{snap("filename")}}}},
			"TestB": {Calls: []e3Call{snap("ext")}},
			"TestSub": {Calls: []e3Call{{API: "ssnap", Cfg: "default"}, {API: "ssnap", Cfg: "default"}}, Subs: []e3Sub{{Name: "sub", Calls: []e3Call{{API: "ssnap", Cfg: "default"}}},
				// subtests whose names hold characters outside [0-9A-Za-z_]: their standalone files belong to the (skipped) ancestor all the same
				{Name: "en-GB", Calls: []e3Call{{API: "ssnap", Cfg: "default"}}}, {Name: "v1.2=x", Calls: []e3Call{{API: "sjson", Cfg: "default"}}},
				// ... and one with characters some file systems reserve, which skips ITSELF in some cells
				{Name: "q?page=2:<a>|*", Calls: []e3Call{{API: "ssnap", Cfg: "default"}, {API: "sjson", Cfg: "default"}}}}},
			"TestAB": {Calls: []e3Call{{API: "sjson", Cfg: "default"}}},
			"Test1":  {Calls: []e3Call{snap("default")}},
		},
		"P4-nested-skips": {
			"TestA": {Calls: []e3Call{snap("default")}, Subs: []e3Sub{
				{Name: "v1", Calls: []e3Call{snap("default")}, Subs: []e3Sub{{Name: "list", Calls: []e3Call{snap("default"), snap("default")}}, {Name: "create", Calls: []e3Call{snap("default")}}}},
				{Name: "v1.1", Calls: []e3Call{snap("default")}, Subs: []e3Sub{{Name: "list", Calls: []e3Call{snap("default")}}}},
				{Name: "v1#x", Calls: []e3Call{snap("default")}},
			}},
			"TestAB": {Calls: []e3Call{snap("default")}},
			"TestB":  {Calls: []e3Call{snap("default")}},
		},
		"P5-numbered-custom-name": {
			"TestSub": {Calls: []e3Call{snap("filename-n"), snap("filename-n")}, Subs: []e3Sub{{Name: "sub", Calls: []e3Call{snap("filename-n")}}}},
			"TestA":   {Calls: []e3Call{snap("default")}},
			"TestB":   {Calls: []e3Call{{API: "ssnap", Cfg: "default"}}},
		},
		// a file whose only owners are SUBTESTS (their parent makes no call): when they skip, nobody addresses the file
		"P6-subtests-only-owners": {
			"TestB": {Subs: []e3Sub{{Name: "x", Calls: []e3Call{snap("default"), snap("default")}}, {Name: "y", Calls: []e3Call{snap("default")}, Subs: []e3Sub{{Name: "z", Calls: []e3Call{snap("default")}}}}}},
			"TestA": {Calls: []e3Call{snap("default")}},
			"TestC": {Subs: []e3Sub{{Name: "only", Calls: []e3Call{snap("default")}}}},
		},
		"P3-sole-owner": {
			"TestB":   {Calls: []e3Call{snap("default"), {API: "ssnap", Cfg: "default"}}},
			"TestA":   {Calls: []e3Call{snap("default")}},
			"TestSub": {Calls: []e3Call{{API: "ssnap", Cfg: "filename"}}},
			"TestC":   {Calls: []e3Call{snap("default"), snap("default")}},
		},
	}
}

var c08Patterns = []string{"", "TestA", "^TestA$", "TestA$", "A", "B", "Sub", "sub", "x", "^x$", "1", "TestA/x", "TestA/^x$", "/x", "A/x/y", "TestA|TestB",
	"TestA/x|TestB", "^Test(A|B)$", "Test[AB]", ".", "TestZ", "NoSnap", "NoSnap|TestA$", "_-_1", "TestZ|sub", "TestAB/x", "TestSub/sub"}

var c08SkipCandidates = []string{"TestA", "TestB", "TestSub", "TestA/x", "TestB/x", "TestA/v1", "TestA/v1.1", "TestA/v1#x", "TestB/y", "TestC/only", "TestAB/x", "TestSub/q?page=2:<a>|*"}

// c08ApplySkips returns a copy of the program with the skip calls planted.
func c08ApplySkips(prog e3Spec, skips map[string]string) e3Spec {
	var subs func(prefix string, in []e3Sub) []e3Sub
	subs = func(prefix string, in []e3Sub) []e3Sub {
		var out []e3Sub
		for _, s := range in {
			ns := s
			if how, ok := skips[prefix+"/"+s.Name]; ok {
				ns.Skip = how
			}
			ns.Subs = subs(prefix+"/"+s.Name, s.Subs)
			out = append(out, ns)
		}
		return out
	}
	out := e3Spec{}
	for name, t := range prog {
		nt := e3Test{Skip: t.Skip, Calls: t.Calls}
		if how, ok := skips[name]; ok {
			nt.Skip = how
		}
		nt.Subs = subs(name, t.Subs)
		out[name] = nt
	}
	return out
}

// c08Declared lists every test (and subtest) of the program that makes calls.
func c08Declared(prog e3Spec) []string {
	var out []string
	var walk func(prefix string, in []e3Sub)
	walk = func(prefix string, in []e3Sub) {
		for _, s := range in {
			if len(s.Calls) > 0 {
				out = append(out, prefix+"/"+s.Name)
			}
			walk(prefix+"/"+s.Name, s.Subs)
		}
	}
	for name, t := range prog {
		if len(t.Calls) > 0 {
			out = append(out, name)
		}
		walk(name, t.Subs)
	}
	sort.Strings(out)
	return out
}

// c08Owned: what the recorded tree attributes to a test: entries "file\x00id"
// and standalone/custom files it alone wrote (from the record-phase trace).
type c08Owned struct {
	entries map[string][]string // test -> ["file\x00id"]
	files   map[string][]string // test -> standalone file names
}

func c08Attribute(tree e3Tree, trace []string) c08Owned {
	o := c08Owned{entries: map[string][]string{}, files: map[string][]string{}}
	standaloneFiles := map[string]bool{}
	{
		k := map[string]int{}
		for _, l := range trace {
			f := strings.Fields(l)
			if len(f) != 5 || f[0] != "call" || (f[2] != "ssnap" && f[2] != "sjson") {
				continue
			}
			base := strings.ReplaceAll(f[1], "/", "_")
			if f[3] == "filename" {
				base = "custom"
			}
			ext := ""
			if f[2] == "sjson" {
				ext = ".json"
			}
			if f[3] == "ext" {
				ext = ".txt"
			}
			k[base+ext]++
			standaloneFiles[fmt.Sprintf("%s_%d.snap%s", base, k[base+ext], ext)] = true
		}
	}
	for f, data := range tree {
		if standaloneFiles[filepath.Base(f)] {
			continue
		}
		es, err := e3Parse(data)
		if err != nil {
			continue
		}
		for _, e := range es {
			if i := strings.LastIndex(e.ID, " - "); i > 0 {
				o.entries[e.ID[:i]] = append(o.entries[e.ID[:i]], f+"\x00"+e.ID)
			}
		}
	}
	// standalone files from the trace: call <name> <api> <cfg> <k>
	k := map[string]int{}
	for _, l := range trace {
		f := strings.Fields(l)
		if len(f) != 5 || f[0] != "call" || (f[2] != "ssnap" && f[2] != "sjson") {
			continue
		}
		name, api, cfg := f[1], f[2], f[3]
		base := strings.ReplaceAll(name, "/", "_")
		if cfg == "filename" {
			base = "custom"
		}
		ext := ""
		if api == "sjson" {
			ext = ".json"
		}
		if cfg == "ext" {
			ext = ".txt"
		}
		key := base + ext
		k[key]++
		file := fmt.Sprintf("%s_%d.snap%s", base, k[key], ext)
		o.files[name] = append(o.files[name], file)
	}
	return o
}

func c08SkipsExist(prog e3Spec, ss map[string]string) bool {
	decl := map[string]bool{}
	for _, d := range c08Declared(prog) {
		decl[d] = true
	}
	for n, how := range ss {
		if !decl[n] {
			return false
		}
		if strings.Contains(how, "@") && !c08Uniform(prog, n) {
			return false
		}
	}
	return true
}

// c08Uniform: all calls of the named test use one API and one configuration (then its k-th call addresses slot k).
func c08Uniform(prog e3Spec, name string) bool {
	var calls []e3Call
	parts := strings.Split(name, "/")
	t, ok := prog[parts[0]]
	if !ok {
		return false
	}
	calls = t.Calls
	subs := t.Subs
	for _, p := range parts[1:] {
		found := false
		for _, s := range subs {
			if s.Name == p {
				calls, subs, found = s.Calls, s.Subs, true
				break
			}
		}
		if !found {
			return false
		}
	}
	for _, c := range calls {
		if c != calls[0] {
			return false
		}
	}
	return len(calls) > 0
}

func runC08(tier, scratch, replay string, nworkers int) *merged {
	return runC08Mode(tier, scratch, replay, nworkers, "C08")
}

// runC07E3 is the E3 twin of C07: the same cells, but the oracle looks at the tests
// that DID run: nothing they addressed in this run may be removed, altered or listed.
func runC07E3(tier, scratch, replay string, nworkers int) *merged {
	return runC08Mode(tier, scratch, replay, nworkers, "C07")
}

func runC08Mode(tier, scratch, replay string, nworkers int, mode string) *merged {
	m := newMerged()
	m.rule = "programs of the fixed E3 module (default-named, custom-named/extension/standalone, sole-owner files) x every set of <=2 tests calling snaps.Skip/Skipf/SkipNow x 25 -run patterns x Clean mode {report, clean} x sort; " +
		"each cell is one run of the real test binary; protected = declared tests whose Match* calls the trace shows did not run; non-trivial = distinct cells with a filter or a skip"
	m.assumptions = append(m.assumptions, "the trace file written by the test bodies is the oracle for what the real runner executed")
	progs := c08Programs()
	var cells []c08Cell
	if replay != "" {
		b, err := os.ReadFile(replay)
		if err != nil {
			fatal(2, "replay: %v", err)
		}
		var rf struct {
			Case c08Cell `json:"case"`
		}
		if err := json.Unmarshal(b, &rf); err != nil {
			fatal(2, "replay: %v", err)
		}
		cells = []c08Cell{rf.Case}
	} else {
		hows := []string{"skip", "skipf", "skipnow"}
		var skipSets []map[string]string
		skipSets = append(skipSets, nil)
		for i, a := range c08SkipCandidates {
			skipSets = append(skipSets, map[string]string{a: hows[i%3]})
			for j := i + 1; j < len(c08SkipCandidates); j++ {
				skipSets = append(skipSets, map[string]string{a: hows[i%3], c08SkipCandidates[j]: hows[j%3]})
			}
		}
		// a test that makes its first call(s) and THEN skips itself: the slots it did not reach are protected
		for _, late := range []map[string]string{{"TestA": "skip@1"}, {"TestSub": "skipf@1"}, {"TestA/v1/list": "skipnow@1"}, {"TestC": "skip@1"}, {"TestA": "skipnow@2"},
			{"TestA": "skipf@1", "TestB": "skip"}, {"TestSub": "skip@1", "TestA/x": "skipnow"}} {
			skipSets = append(skipSets, late)
		}
		patterns := c08Patterns
		if tier == "thorough" {
			patterns = append(append([]string{}, c08Patterns...), "TestA/v1", "TestA/v1$", "TestA/^v1$", "v1", "TestA/v1/list", "TestA/v1\\.1", "Test./x", "^TestA$/^x$", "TestSub/1",
				"TestSub/sub|TestA/x", "TestA/v1/^list$", "Test(A|B)/x", "TestB|TestA/v1#x", "Fuzz", "FuzzA/seed", "^(TestA|TestSub)$/^(x|sub)$")
			// sets of three skips
			for i := 0; i < len(c08SkipCandidates); i++ {
				for j := i + 1; j < len(c08SkipCandidates); j++ {
					for k := j + 1; k < len(c08SkipCandidates); k++ {
						skipSets = append(skipSets, map[string]string{c08SkipCandidates[i]: "skip", c08SkipCandidates[j]: "skipf", c08SkipCandidates[k]: "skipnow"})
					}
				}
			}
		}
		var pnames []string
		for n := range progs {
			pnames = append(pnames, n)
		}
		sort.Strings(pnames)
		for _, pn := range pnames {
			for si, ss := range skipSets {
				if !c08SkipsExist(progs[pn], ss) {
					continue
				}
				for pi, pat := range patterns {
					for _, env := range []string{"clean", ""} {
						for _, srt := range []bool{false, true} {
							if tier == "quick" {
								if srt && env == "" {
									continue
								}
								if len(ss) == 2 && (pi+si)%3 != 0 {
									continue
								}
								if srt && (pi+si)%2 != 0 {
									continue
								}
							}
							cells = append(cells, c08Cell{Program: pn, Skips: ss, Run: pat, Env: env, Sort: srt, Count: 1})
							if len(ss) > 0 && (pat == "" || pi%6 == 1) && !srt {
								cells = append(cells, c08Cell{Program: pn, Skips: ss, Run: pat, Env: env, Sort: srt, Count: 1, CRLF: true})
							}
							if tier == "thorough" && !srt && (pi+si)%2 == 0 {
								cells = append(cells, c08Cell{Program: pn, Skips: ss, Run: pat, Env: env, Count: 2})
							}
						}
					}
				}
			}
		}
		if mode == "C07" {
			// the C07 twin: fewer patterns, but -count 1..3 and every Clean mode
			cells = nil
			for _, pn := range pnames {
				for _, pat := range []string{"", "TestA", "^TestA$", "TestA/x", "B", "Sub|TestB", "."} {
					for _, cnt := range []int{1, 2, 3} {
						for _, env := range []string{"clean", "true", ""} {
							for _, srt := range []bool{false, true} {
								if tier == "quick" && srt && cnt == 2 {
									continue
								}
								cells = append(cells, c08Cell{Program: pn, Run: pat, Env: env, Sort: srt, Count: cnt})
							}
						}
					}
				}
			}
		}
		// -count 2 on a few cells
		for _, pn := range pnames {
			for _, pat := range []string{"", "TestA", "B"} {
				cells = append(cells, c08Cell{Program: pn, Run: pat, Env: "clean", Count: 2}, c08Cell{Program: pn, Skips: map[string]string{"TestB": "skip"}, Run: pat, Env: "clean", Count: 2})
			}
		}
	}
	m.bounds["programs"] = len(progs)
	m.bounds["patterns_quick"] = c08Patterns
	m.bounds["skip_candidates"] = c08SkipCandidates
	m.bounds["cells"] = len(cells)
	ws, err := e3Workers(scratch, nworkers)
	if err != nil {
		m.harnessErrs = append(m.harnessErrs, err.Error())
		return m
	}
	// phase 1 per worker and program: record everything with no filter and no skip
	type rec struct {
		tree  e3Tree
		owned c08Owned
	}
	recorded := make([]map[string]rec, len(ws))
	var mu sync.Mutex
	for i := range recorded {
		recorded[i] = map[string]rec{}
	}
	e3Parallel(ws, cells, func(w *e3Worker, cell c08Cell) {
		prog := progs[cell.Program]
		snapDir := filepath.Join(w.dir, "__snapshots__")
		r, ok := recorded[w.id][cell.Program]
		if !ok {
			os.RemoveAll(snapDir)
			res := w.run(prog, "", 1, map[string]string{"E3_NOCLEAN": "1"})
			tree := e3ReadTree(snapDir)
			if res.exit != 0 || len(tree) == 0 {
				mu.Lock()
				m.harnessErrs = append(m.harnessErrs, fmt.Sprintf("C08 record phase failed (exit %d): %s", res.exit, tail(res.stdout, 1500)))
				mu.Unlock()
				return
			}
			r = rec{tree: tree, owned: c08Attribute(tree, res.trace)}
			// phase 1b: plant stale items from the model
			for f, data := range tree {
				if f == "a_test.snap" {
					tree[f] = data + e3Render([]e3Entry{{"TestAZ - 1", "stale sibling"}, {"TestGone/x - 1", "stale"}})
				}
			}
			tree["gone_test.snap"] = e3Render([]e3Entry{{"TestGone - 1", "stale file"}})
			tree["TestGone_1.snap"] = "stale standalone"
			recorded[w.id][cell.Program] = r
		}
		e3WriteTree(snapDir, r.tree)
		if cell.CRLF {
			for f, data := range r.tree {
				if es, err := e3Parse(data); err == nil && len(es) > 0 {
					os.WriteFile(filepath.Join(snapDir, f), []byte(strings.ReplaceAll(data, "\n", "\r\n")), 0o644)
				}
			}
		}
		spec := c08ApplySkips(prog, cell.Skips)
		env := map[string]string{}
		if cell.Env != "" {
			env["UPDATE_SNAPS"] = cell.Env
		}
		if cell.Sort {
			env["E3_SORT"] = "1"
		}
		cnt := cell.Count
		if cnt == 0 {
			cnt = 1
		}
		res := w.run(spec, cell.Run, cnt, env)
		after := e3ReadTree(snapDir)
		sum := e3ParseSummary(res.stdout)
		// what ran
		ranCalls := map[string]bool{}
		skipped := map[string]bool{}
		for _, l := range res.trace {
			f := strings.Fields(l)
			if len(f) >= 2 && f[0] == "call" {
				ranCalls[f[1]] = true
			}
			if len(f) >= 2 && f[0] == "skip" {
				skipped[f[1]] = true
			}
		}
		mu.Lock()
		defer mu.Unlock()
		m.counters["evaluations"]++
		m.counters["traces"]++
		m.counters["transitions"] += int64(len(res.trace)) + 1
		m.counters["runs_of_real_binary"]++
		cb, _ := json.Marshal(cell)
		if cell.Run != "" || len(cell.Skips) > 0 {
			m.set("nontrivial")[hash64(string(cb))] = struct{}{}
		}
		var treeKeys []string
		for k, v := range after {
			treeKeys = append(treeKeys, k+"\x00"+v)
		}
		sort.Strings(treeKeys)
		m.set("states")[hash64(treeKeys...)] = struct{}{}
		if len(m.samples) < 6 {
			m.samples = append(m.samples, cb)
		}
		if strings.Contains(res.stdout, "panic:") || (res.exit != 0 && !strings.Contains(res.stdout, "FAIL")) {
			m.viol("", fmt.Sprintf("cell %s: test binary crashed: %s", cb, tail(res.stdout, 800)), cell)
			return
		}
		declared := c08Declared(prog)
		var protected []string
		for _, d := range declared {
			if !ranCalls[d] {
				protected = append(protected, d)
			}
		}
		m.outcomes[fmt.Sprintf("protected=%d/%d", len(protected), len(declared))]++
		bySkip := func(name string) bool {
			for s := range skipped {
				if name == s || strings.HasPrefix(name, s+"/") {
					return true
				}
			}
			return false
		}
		listedTest := map[string]bool{}
		for _, t := range sum.obsTests {
			listedTest[t] = true
		}
		listedFile := map[string]bool{}
		for _, f := range sum.obsFiles {
			listedFile[f] = true
		}
		runRe, _ := regexp.Compile(cell.Run)
		// the predicates of the known findings are functions of the cell and of the item that is hit
		class := func(name string, itemIsFile bool, file, id string) string {
			switch {
			case bySkip(name) && itemIsFile && strings.HasPrefix(file, "custom_"):
				// K13: a standalone file with a custom Filename cannot be attributed to the skipped test that owns it
				return "K13-custom-named-standalone-file-of-skipped-test"
			case bySkip(name) && itemIsFile:
				// F5: the skip list is never consulted when whole files are examined
				return "F5-skipped-owner-file-not-protected"
			case cell.Run != "" && !itemIsFile && !bySkip(name) && runRe != nil && runRe.MatchString(id):
				// K3: the pattern, taken as ONE unanchored regexp, matches the whole id `name - n` although Go did not select the test
				return "K3-run-pattern-regexp-vs-go-matching"
			case cell.Run != "" && itemIsFile && !bySkip(name) && c08DefaultFile(file) && c08SourceHasMatch(file, runRe):
				// K7: some function of the source file matches the pattern
				return "K7-file-level-rule-function-in-source-matches"
			case cell.Run != "" && itemIsFile && !bySkip(name) && !c08DefaultFile(file):
				// K4: no source file is named after this snapshot file
				return "K4-file-skip-derives-source-name-from-snapshot-name"
			}
			return ""
		}
		if mode == "C07" {
			// every test whose calls ran in this process: what it addressed survives Clean, unlisted
			for _, name := range declared {
				if !ranCalls[name] {
					continue
				}
				for _, fe := range r.owned.entries[name] {
					parts := strings.SplitN(fe, "\x00", 2)
					file, id := parts[0], parts[1]
					es, _ := e3Parse(after[file])
					var body *string
					for i := range es {
						if es[i].ID == id {
							body = &es[i].Body
						}
					}
					orig, _ := e3Parse(r.tree[file])
					var was string
					for _, e := range orig {
						if e.ID == id {
							was = e.Body
						}
					}
					switch {
					case body == nil:
						m.viol("", fmt.Sprintf("E3: test %s ran and matched [%s] in this process (-count %d, -run %q); the entry is gone after Clean (summary %v)", name, id, cnt, cell.Run, sum.obsTests), cell)
					case *body != was:
						m.viol("", fmt.Sprintf("E3: entry [%s] matched in this run was altered by Clean: %q -> %q", id, was, *body), cell)
					case listedTest[id]:
						m.viol("", fmt.Sprintf("E3: entry [%s] matched in this run is listed obsolete", id), cell)
					}
				}
				for _, file := range r.owned.files[name] {
					if after[file] != r.tree[file] || listedFile[file] {
						m.viol("", fmt.Sprintf("E3: standalone file %s matched in this run (test %s) was removed/altered/listed by Clean (listed=%v)", file, name, listedFile[file]), cell)
					}
				}
			}
			if res.exit != 0 {
				m.viol("", fmt.Sprintf("E3: the run itself failed: %s", tail(res.stdout, 400)), cell)
			}
			return
		}
		for _, name := range protected {
			for _, fe := range r.owned.entries[name] {
				parts := strings.SplitN(fe, "\x00", 2)
				file, id := parts[0], parts[1]
				why := "filtered out by -run " + cell.Run
				if bySkip(name) {
					why = "skipped through snaps.Skip*"
				}
				data, still := after[file]
				if !still {
					m.viol(class(name, true, file, id), fmt.Sprintf("test %s did not run (%s); file %s holding its entry [%s] was removed (summary files %v)", name, why, file, id, sum.obsFiles), cell)
					continue
				}
				es, _ := e3Parse(data)
				found := false
				for _, e := range es {
					if e.ID == id {
						found = true
					}
				}
				if !found {
					m.viol(class(name, false, file, id), fmt.Sprintf("test %s did not run (%s); its entry [%s] was removed from %s (summary tests %v)", name, why, id, file, sum.obsTests), cell)
				} else if listedTest[id] {
					m.viol(class(name, false, file, id), fmt.Sprintf("test %s did not run (%s); its entry [%s] is listed obsolete", name, why, id), cell)
				} else if listedFile[filepath.Base(file)] {
					m.viol(class(name, true, file, id), fmt.Sprintf("test %s did not run (%s); file %s holding its entry is listed obsolete", name, why, file), cell)
				}
			}
			for _, file := range r.owned.files[name] {
				why := "filtered out by -run " + cell.Run
				if bySkip(name) {
					why = "skipped through snaps.Skip*"
				}
				if _, still := after[file]; !still {
					m.viol(class(name, true, file, ""), fmt.Sprintf("test %s did not run (%s); its standalone file %s was removed", name, why, file), cell)
				} else if after[file] != r.tree[file] {
					m.viol(class(name, true, file, ""), fmt.Sprintf("test %s did not run (%s); its standalone file %s was altered", name, why, file), cell)
				} else if listedFile[file] {
					m.viol(class(name, true, file, ""), fmt.Sprintf("test %s did not run (%s); its standalone file %s is listed obsolete", name, why, file), cell)
				}
			}
		}
		// a test that skipped itself after k calls: the slots beyond k are protected, the ones it addressed are kept as well
		for name, how := range cell.Skips {
			if !strings.Contains(how, "@") || !skipped[name] {
				continue
			}
			reached := 0
			for _, l := range res.trace {
				f := strings.Fields(l)
				if len(f) == 5 && f[0] == "call" && f[1] == name {
					var i int
					fmt.Sscan(f[4], &i)
					if i > reached {
						reached = i
					}
				}
			}
			for _, fe := range r.owned.entries[name] {
				parts := strings.SplitN(fe, "\x00", 2)
				file, id := parts[0], parts[1]
				var k int
				fmt.Sscan(id[strings.LastIndex(id, " - ")+3:], &k)
				if k <= reached {
					continue
				}
				es, _ := e3Parse(after[file])
				found := false
				for _, e := range es {
					if e.ID == id {
						found = true
					}
				}
				if !found {
					m.viol(class(name, false, file, id), fmt.Sprintf("test %s made %d call(s) and then skipped itself through snaps.%s; its entry [%s] was removed from %s (summary tests %v)", name, reached, how, id, file, sum.obsTests), cell)
				} else if listedTest[id] {
					m.viol(class(name, false, file, id), fmt.Sprintf("test %s made %d call(s) and then skipped itself through snaps.%s; its entry [%s] is listed obsolete", name, reached, how, id), cell)
				}
			}
			for i, file := range r.owned.files[name] {
				if i+1 <= reached {
					continue
				}
				if after[file] != r.tree[file] || listedFile[file] {
					m.viol(class(name, true, file, ""), fmt.Sprintf("test %s made %d call(s) and then skipped itself through snaps.%s; its standalone file %s was removed/altered/listed (listed=%v)", name, reached, how, file, listedFile[file]), cell)
				}
			}
		}
		// a skip protects exactly the test and its descendants, not name-prefix siblings: with no -run the stale items must be reported
		if cell.Run == "" {
			if _, ok := r.tree["a_test.snap"]; ok && ranOrProtectedUsesFile(r.owned, "a_test.snap", ranCalls) {
				for _, id := range []string{"TestAZ - 1", "TestGone/x - 1"} {
					if !listedTest[id] {
						m.viol("", fmt.Sprintf("no -run filter: stale entry [%s] (sibling by name prefix of a skipped test at most) is not reported obsolete; summary %v", id, sum.obsTests), cell)
					}
				}
			}
			for _, f := range []string{"gone_test.snap", "TestGone_1.snap"} {
				if len(ranCalls) > 0 && !listedFile[f] {
					m.viol("", fmt.Sprintf("no -run filter: stale file %s is not reported obsolete; summary %v", f, sum.obsFiles), cell)
				}
			}
		}
	})
	return m
}

// c08DefaultFile: snapshot files named after a source file of the module.
func c08DefaultFile(file string) bool {
	_, ok := e3Files[strings.TrimSuffix(file, ".snap")+".go"]
	return ok
}

// ranOrProtectedUsesFile: the file was addressed by some call that really ran
// (only then does Clean examine its entries).
func ranOrProtectedUsesFile(o c08Owned, file string, ran map[string]bool) bool {
	for name, es := range o.entries {
		if !ran[name] {
			continue
		}
		for _, fe := range es {
			if strings.HasPrefix(fe, file+"\x00") {
				return true
			}
		}
	}
	return false
}

// c08SourceHasMatch: does some test function declared in the source file that
// corresponds to the snapshot file match the pattern (unanchored)?
func c08SourceHasMatch(snapFile string, re *regexp.Regexp) bool {
	if re == nil {
		return false
	}
	src := strings.TrimSuffix(snapFile, ".snap") + ".go"
	for _, fn := range e3Files[src] {
		if re.MatchString(fn) {
			return true
		}
	}
	// helper functions generated into every test file
	for _, fn := range []string{"cfg", "do", "skip", "run", "runSubs"} {
		if re.MatchString(fn + strings.ToUpper(src[:1])) {
			return true
		}
	}
	return false
}
